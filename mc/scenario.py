"""
Shared scenario generator for the mapping properties (DESIGN.md section 3).

A scenario is described by a small JSON-serialisable *spec*; `build(spec, dir)`
writes the three input files directly in their documented on-disk layouts
(statistics HDF5, marker JSON, query h5ad) without using cell_type_mapper, and
returns a `Built` object holding the independent description the oracles use.
`run_mapping(built, cfg)` drives the real pipeline through the function the
CLI calls.
"""
import json
import os
import pathlib
import random
import traceback

import anndata
import h5py
import numpy as np
import pandas as pd
import scipy.sparse as scipy_sparse

from mc import domains


DEFAULT_CFG = {
    'flatten': False,
    'drop_level': None,          # index into hierarchy, a str, or None
    'chunk_size': 2,
    'n_processors': 2,
    'n_runners_up': 2,
    'iterations': 3,
    'factor': 0.5,
    'factor_lookup': False,      # per-level lookup instead of one factor
    'rng_seed': 1,
    'normalization': 'raw',
    'min_markers': 1,
    'encoding': 'dense',         # dense | csr | csc
    'buffer': 'tmp_dir',         # tmp_dir | result_dir
    'cloud_safe': True,
    'csv': True,
    'hdf5': True,
    'max_gb': 10,
}


def _as_shape(x):
    return tuple(_as_shape(c) for c in x)


class Built(object):
    pass


def gene_names(n, seed):
    """reference gene names in an order that is neither sorted nor reverse"""
    names = [f'g{chr(97 + (i * 5 + seed) % 26)}{i}' for i in range(n)]
    return names


def build(spec, out_dir):
    """
    spec keys (all optional but `L`, `shape`):
      L, shape, scheme            tree
      n_ref_genes (6)             reference genes
      n_cells (3)                 query cells
      marker_mode  full|fallback|table (explicit `markers` dict)
      query_genes  perm|superset|subset : relation of query columns to ref
      seed
      name_mapper: bool  add name/alias tables + hierarchy_mapper
      level_names: explicit list
      dup_cells: bool   make cell 1 a copy of cell 0 (C06)
    """
    out_dir = pathlib.Path(out_dir)
    out_dir.mkdir(parents=True, exist_ok=True)
    seed = int(spec.get('seed', 0))
    rnd = random.Random(seed * 1009 + 7)
    nrng = np.random.default_rng(seed * 1009 + 7)
    if 'value_seed' in spec:
        # same names / orders, different numeric content
        nrng = np.random.default_rng(int(spec['value_seed']))
    L = spec['L']
    shape = _as_shape(spec['shape'])
    scheme = spec.get('scheme', 'A')
    data, model = domains.realize_tree(
        L, shape, scheme, seed=seed, with_cells=0,
        level_names=spec.get('level_names'))
    h = model['hierarchy']
    leaves = model['leaves']
    n_leaves = len(leaves)

    # a tree as the precompute stage would have stored it: with metadata
    data['metadata'] = {'factory': 'verif'}
    if spec.get('name_mapper'):
        nm = {}
        for li, lv in enumerate(h):
            nm[lv] = {}
            for k, node in enumerate(model['nodes'][lv]):
                if (k + li) % 3 == 2:
                    continue          # partial tables
                entry = {'name': f'Name of {node}, "{lv}"'}
                if li == len(h) - 1:
                    entry['alias'] = str(1000 + k)
                nm[lv][node] = entry
        data['name_mapper'] = nm
        data['hierarchy_mapper'] = {
            lv: f'{lv}_readable' for lv in h[:max(1, len(h) - 1)]}

    # optional: store a *reduced* taxonomy (same leaves, profiles, genes)
    # - the reference "that never had that level" of C17
    orig_model = model
    red = spec.get('reduce')
    if red:
        m2 = model
        if red.get('drop') is not None:
            m2 = domains.model_drop_level(m2, h[red['drop']])
        if red.get('flatten'):
            for lv in list(m2['hierarchy'][:-1]):
                m2 = domains.model_drop_level(m2, lv)
        d2 = {'hierarchy': list(m2['hierarchy']),
              'metadata': {'factory': 'verif-reduced'}}
        for li, lv in enumerate(m2['hierarchy']):
            names = list(m2['nodes'][lv])
            names.sort(reverse=True)      # unlike what _drop_level produces
            d2[lv] = {}
            for nme in names:
                kids = list(m2['children'][lv][nme])
                kids.sort(reverse=True)
                d2[lv][nme] = kids
        data = d2
        model = m2

    b = Built()
    b.spec = dict(spec)
    b.dir = out_dir
    b.tree_data = data
    b.model = model
    b.orig_model = orig_model

    # ---- reference statistics ------------------------------------------
    n_ref = int(spec.get('n_ref_genes', 8))
    ref_genes = gene_names(n_ref, seed)
    perm = list(range(n_ref))
    rnd.shuffle(perm)
    ref_genes = [ref_genes[i] for i in perm]
    means = np.round(nrng.uniform(0.0, 9.0, size=(n_leaves, n_ref)), 3)
    # give each leaf a clear signature on one or two genes
    for i in range(n_leaves):
        means[i, i % n_ref] += 4.0
        means[i, (i * 3 + 1) % n_ref] = max(0.0, means[i, (i * 3 + 1) % n_ref]
                                            - 3.0)
    if spec.get('tie_leaves') and n_leaves >= 2:
        means[1, :] = means[0, :]          # two identical leaves
    if spec.get('const_leaf') and n_leaves >= 1:
        means[-1, :] = 2.5                 # constant profile
    n_cells_leaf = np.array([1 + (i + seed) % 3 for i in range(n_leaves)])
    row_order = list(range(n_leaves))
    rnd.shuffle(row_order)                # cluster_to_row: not tree order
    cluster_to_row = {leaves[i]: r for i, r in enumerate(row_order)}
    sum_arr = np.zeros((n_leaves, n_ref))
    sumsq_arr = np.zeros((n_leaves, n_ref))
    ge1 = np.zeros((n_leaves, n_ref), dtype=int)
    n_arr = np.zeros(n_leaves, dtype=int)
    for i, leaf in enumerate(leaves):
        r = cluster_to_row[leaf]
        n_arr[r] = n_cells_leaf[i]
        sum_arr[r, :] = means[i, :] * n_cells_leaf[i]
        sumsq_arr[r, :] = (means[i, :] ** 2) * n_cells_leaf[i] + 0.01
        ge1[r, :] = (means[i, :] >= 1.0) * n_cells_leaf[i]
    b.stats_path = out_dir / spec.get('stats_name', 'stats.h5')
    with h5py.File(b.stats_path, 'w') as dst:
        dst.create_dataset('n_cells', data=n_arr)
        dst.create_dataset('sum', data=sum_arr)
        dst.create_dataset('sumsq', data=sumsq_arr)
        dst.create_dataset('ge1', data=ge1)
        dst.create_dataset('gt1', data=ge1)
        dst.create_dataset('gt0', data=ge1)
        dst.create_dataset('cluster_to_row',
                           data=json.dumps(cluster_to_row).encode('utf-8'))
        dst.create_dataset('col_names',
                           data=json.dumps(ref_genes).encode('utf-8'))
        dst.create_dataset('taxonomy_tree',
                           data=json.dumps(data).encode('utf-8'))
        dst.create_dataset('metadata',
                           data=json.dumps({'verif': 1}).encode('utf-8'))
    b.ref_genes = ref_genes

    # ---- query -----------------------------------------------------------
    n_cells = int(spec.get('n_cells', 3))
    qmode = spec.get('query_genes', 'superset')
    q_genes = list(ref_genes)
    if qmode == 'superset':
        q_genes = q_genes + ['q_only_1', 'q_only_0']
    elif qmode == 'subset':
        q_genes = q_genes[:-1] + ['q_only_0']
    elif isinstance(qmode, dict):
        q_genes = [g for g in q_genes if g not in qmode.get('drop', [])]
        q_genes += list(qmode.get('add', []))
    rnd.shuffle(q_genes)
    if q_genes[:n_ref] == ref_genes:
        q_genes = q_genes[::-1]
    pre = spec.get('id_prefix', 'q')
    ids = [f'{pre}{(k * 7 + 3) % (n_cells + 9)}' for k in range(n_cells)]
    # ids that sort differently as strings than as row numbers
    if len(set(ids)) != n_cells:
        ids = [f'{pre}{10 - k}' if k < 10 else f'{pre}{k}x'
               for k in range(n_cells)]
    if spec.get('reverse_ids'):
        ids = ids[::-1]
    raw = np.zeros((n_cells, len(q_genes)))
    gene_to_ref = {g: j for j, g in enumerate(ref_genes)}
    for k in range(n_cells):
        t = (k + seed) % n_leaves
        u = (k * 2 + 1 + seed) % n_leaves
        w = [0.9, 0.55, 0.7, 0.5, 1.0][k % 5]
        for j, g in enumerate(q_genes):
            if g in gene_to_ref:
                jj = gene_to_ref[g]
                v = w * (2 ** means[t, jj] - 1) + (1 - w) * (
                    2 ** means[u, jj] - 1)
                v = v * (0.6 + 0.8 * nrng.uniform())
            else:
                v = 40 * nrng.uniform()
            raw[k, j] = max(0.0, np.round(v))
        if raw[k].sum() == 0:
            raw[k, 0] = 1.0
    if spec.get('zero_cell') and n_cells >= 2:
        raw[n_cells - 1, :] = 0.0
    if spec.get('dup_cells') and n_cells >= 2:
        raw[1, :] = raw[0, :]
    b.query_genes = q_genes
    b.cell_ids = ids
    b.raw = raw
    b.log2cpm = own_log2cpm(raw)

    # ---- marker table ----------------------------------------------------
    mmode = spec.get('marker_mode', 'full')
    in_both = [g for g in ref_genes if g in set(q_genes)]
    ref_only = [g for g in ref_genes if g not in set(q_genes)]
    table = {}
    if mmode == 'table':
        table = dict(spec['markers'])
    else:
        parents = [('None', None, None)]
        for lv in h[:-1]:
            for node in orig_model['nodes'][lv]:
                parents.append((f'{lv}/{node}', lv, node))
        for pi, (key, lv, node) in enumerate(parents):
            k = 5 + (pi % 2)
            genes = [in_both[(pi * 2 + j) % len(in_both)] for j in range(k)]
            genes = list(dict.fromkeys(genes))
            if ref_only and pi % 2 == 0:
                genes.append(ref_only[0])     # a marker missing from query
            if mmode == 'fallback' and key != 'None':
                if pi % 3 == 0:
                    continue                  # parent missing from table
                if pi % 3 == 1:
                    genes = []                # empty list
            if mmode == 'full' and key == 'None':
                genes = list(dict.fromkeys(genes + in_both[:6]))
            rnd.shuffle(genes)
            table[key] = genes
    if spec.get('marker_union'):
        union = set()
        for k in table:
            union |= set(table[k])
        table = {'None': sorted(union)}
    if spec.get('marker_prune'):
        keep = {'None'} | {f'{lv}/{node}' for lv in model['hierarchy'][:-1]
                           for node in model['nodes'][lv]}
        table = {k: v for k, v in table.items() if k in keep}
    if spec.get('flat_cell') and n_cells >= 1 and len(h) >= 2:
        # one cell with no counts on any marker of a non-root parent but a
        # clear signal on genes only the root uses: below the root its
        # profile is flat and every correlation is exactly 0
        qset = set(q_genes)
        root_q = [g for g in table.get('None', []) if g in qset]
        reserve = root_q[:2]
        for key in list(table):
            if key != 'None':
                table[key] = [g for g in table[key] if g not in reserve]
        non_root = set()
        for key, gl in table.items():
            if key != 'None':
                non_root |= set(gl)
        k0 = n_cells - 1 - (1 if spec.get('zero_cell') else 0)
        b.flat_cells = []
        # up to three such cells with different root signals, so that they
        # are routed into different children of the root
        for k, vals in zip(range(k0, max(k0 - 3, 1), -1),
                           ((7.0, 90.0), (90.0, 7.0), (60.0, 1.0))):
            for j, g in enumerate(q_genes):
                if g in non_root:
                    raw[k, j] = 0.0
            for val, g in zip(vals, reserve):
                raw[k, q_genes.index(g)] = val
            b.flat_cells.append(ids[k])
        b.raw = raw
        b.log2cpm = own_log2cpm(raw)
        b.flat_cell = ids[k0]
    b.marker_table = table
    b.marker_path = out_dir / 'markers.json'
    with open(b.marker_path, 'w') as dst:
        blob = dict(table)
        blob['metadata'] = {'verif': 1}
        blob['log'] = ['a log line']
        json.dump(blob, dst)
    b._query_cache = {}
    return b


def own_log2cpm(raw):
    raw = np.asarray(raw, dtype=float)
    out = np.zeros_like(raw)
    for i in range(raw.shape[0]):
        s = raw[i].sum()
        if s <= 0:
            s = 1.0
        out[i] = np.log2(1.0 + 1.0e6 * raw[i] / s)
    return out


def write_query(b, normalization='raw', encoding='dense', name=None,
                matrix=None, genes=None, ids=None, dtype=None, uns=None):
    """write the query h5ad; returns its path"""
    if matrix is None:
        matrix = b.raw if normalization == 'raw' else b.log2cpm
    genes = b.query_genes if genes is None else genes
    ids = b.cell_ids if ids is None else ids
    cacheable = (name is None and matrix is None and genes is None
                 and ids is None and dtype is None and uns is None)
    if name is None:
        name = f'query_{normalization}_{encoding}.h5ad'
    path = b.dir / name
    if cacheable and name in b._query_cache:
        return path
    x = np.asarray(matrix, dtype=float if dtype is None else dtype)
    if encoding == 'csr':
        x = scipy_sparse.csr_matrix(x)
    elif encoding == 'csc':
        x = scipy_sparse.csc_matrix(x)
    elif encoding != 'dense':
        raise ValueError(encoding)
    obs = pd.DataFrame({'junk': [f'j{i}' for i in range(len(ids))]},
                       index=pd.Index(list(ids), name='cell_label'))
    var = pd.DataFrame({'sym': [f's{i}' for i in range(len(genes))]},
                       index=pd.Index(list(genes), name='gene_id'))
    a = anndata.AnnData(X=x, obs=obs, var=var)
    if uns is not None:
        a.uns = uns
    a.write_h5ad(path)
    if cacheable:
        b._query_cache[name] = True
    return path


def level_name(b, cfg_drop):
    if cfg_drop is None:
        return None
    if isinstance(cfg_drop, int):
        return b.model['hierarchy'][cfg_drop]
    return cfg_drop


def make_config(b, cfg, out_dir, query_path=None):
    """the dict run_mapping expects (what argschema would have produced)"""
    out_dir = pathlib.Path(out_dir)
    out_dir.mkdir(parents=True, exist_ok=True)
    c = dict(DEFAULT_CFG)
    c.update(cfg)
    if query_path is None:
        query_path = write_query(b, c['normalization'], c['encoding'])
    scratch = out_dir / 'scratch'
    scratch.mkdir(exist_ok=True)
    result_dir = out_dir / 'result_dir'
    result_dir.mkdir(exist_ok=True)
    h = b.model['hierarchy']
    drop = level_name(b, c['drop_level'])
    ta = {
        'bootstrap_iteration': c['iterations'],
        'bootstrap_factor': c['factor'],
        'bootstrap_factor_lookup': None,
        'chunk_size': c['chunk_size'],
        'normalization': c['normalization'],
        'rng_seed': c['rng_seed'],
        'n_runners_up': c['n_runners_up'],
        'min_markers': c['min_markers'],
        'n_processors': c['n_processors'],
    }
    if c['factor_lookup']:
        ta['bootstrap_factor'] = None
        look = [['None', c['factor']]]
        for li, lv in enumerate(h[:-1]):
            look.append([lv, [1.0, c['factor'], 0.34][li % 3]])
        ta['bootstrap_factor_lookup'] = look
    config = {
        'query_path': str(query_path),
        'extended_result_path': str(out_dir / 'out.json'),
        'hdf5_result_path': str(out_dir / 'out.h5') if c['hdf5'] else None,
        'csv_result_path': str(out_dir / 'out.csv') if c['csv'] else None,
        'summary_metadata_path': None,
        'obsm_key': None,
        'obsm_clobber': False,
        'extended_result_dir': (str(result_dir)
                                if c['buffer'] == 'result_dir' else None),
        'tmp_dir': str(scratch) if c['buffer'] == 'tmp_dir' else None,
        'drop_level': drop,
        'flatten': c['flatten'],
        'max_gb': c['max_gb'],
        'cloud_safe': c['cloud_safe'],
        'precomputed_stats': {'path': str(b.stats_path)},
        'query_markers': {'serialized_lookup': str(b.marker_path)},
        'type_assignment': ta,
        'map_to_ensembl': False,
        'log_path': str(out_dir / 'log.txt'),
    }
    return config, c


class Outcome(object):
    pass


def run_mapping(b, cfg, out_dir, query_path=None, config_edit=None):
    """run the real pipeline; never raises"""
    from cell_type_mapper.cli import from_specified_markers as fsm
    config, c = make_config(b, cfg, out_dir, query_path=query_path)
    if config_edit is not None:
        config_edit(config)
    from mc import common
    o = Outcome()
    o.config = config
    o.cfg = c
    o.error = None
    o.tb = None
    mark = common.stderr_mark()
    try:
        fsm.run_mapping(
            config,
            output_path=config['extended_result_path'],
            log_path=config['log_path'],
            hdf5_output_path=config['hdf5_result_path'])
    except BaseException as e:     # noqa: B902 (SystemExit from workers too)
        if isinstance(e, KeyboardInterrupt):
            raise
        o.error = f'{type(e).__name__}: {e}'
        o.tb = traceback.format_exc() + '\n--- worker stderr ---\n' + \
            common.stderr_since(mark)
    o.json_path = pathlib.Path(config['extended_result_path'])
    o.blob = None
    if o.json_path.exists():
        try:
            o.blob = json.load(open(o.json_path))
        except Exception as e:
            o.blob = {'__unreadable__': str(e)}
    o.ok = o.error is None
    return o


def list_tree(path):
    """sorted relative listing of everything under path"""
    path = pathlib.Path(path)
    out = []
    for root, dirs, files in os.walk(path):
        for n in dirs + files:
            out.append(str((pathlib.Path(root) / n).relative_to(path)))
    return sorted(out)
