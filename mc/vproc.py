"""
Controlled replacement of multiprocessing.Process (DESIGN.md E2).

Installed by assigning multiprocessing.Process in the harness process: every
parallel stage of cell_type_mapper reaches the class through the module
attribute, Manager() uses the context class and is unaffected.

* start() really forks (copy-on-write snapshot at start, like the real
  thing); the child blocks on a pipe before running its target.
* `exitcode` is the scheduling point.  Reading it for an unfinished child
  asks the scheduler whether the child has finished *by now*; if yes the child
  is released, runs to completion (one child runs at a time, so an execution
  is a deterministic function of the choice list) and its real exit code is
  returned.  Pruning (the same rule as mc/tla/WorkerPool.tla): a polling sweep
  in which no worker is observed finished leaves the parent where it was, so
  the last poll of a sweep must answer "finished" if no earlier poll of that
  sweep did.  Sweeps are delimited by wrapping winnow_process_list/_dict as
  seen from the stage modules; polls outside a sweep (a refactored pool) fall
  back to "a worker says 'not yet' at most once between two changes of the
  parent's state", which is complete but explores duplicates.
* faults: per dispatch index a (mode, point) pair - mode in {kill, exit,
  raise}, point 'before' | 'after' | ('call', k) = after the k-th python call
  event inside cell_type_mapper counted with sys.setprofile in the child.
"""
import multiprocessing
import os
import signal
import sys
import time

_ORIG = {'process': None}


class ScheduleDivergence(Exception):
    pass


class Scheduler(object):

    def __init__(self, script=None, faults=None, forced_script=None,
                 count_calls=False, child_timeout=60.0):
        self.script = list(script or [])
        self.k = 0
        self.options = []          # explorer bookkeeping, one per choice
        self.procs = []
        self.no_since_change = set()
        self.faults = dict(faults or {})
        self.events = []
        self.count_calls = count_calls
        self.child_timeout = child_timeout
        self.blocked = []
        # forced_script: list of booleans answering EVERY poll of an
        # unfinished process (used when replaying model traces)
        self.forced_script = None if forced_script is None else list(
            forced_script)
        self.forced_k = 0
        self.observer = None       # callback(event dict) for conformance
        self.in_sweep = False
        self.sweep_size = 0
        self.sweep_polls = 0
        self.sweep_yes = False

    # -- explorer interface
    def _choose(self, n):
        idx = self.script[self.k] if self.k < len(self.script) else 0
        if idx >= n:
            raise ScheduleDivergence(
                f'choice {self.k}: script says {idx}, {n} options')
        self.k += 1
        self.options.append(n)
        return idx

    def _emit(self, ev):
        self.events.append(ev)
        if self.observer is not None:
            self.observer(ev)

    # -- called by VProc
    def on_create(self, vp):
        vp.index = len(self.procs)
        self.procs.append(vp)

    def on_start(self, vp):
        self.no_since_change.clear()
        self._emit({'ev': 'start', 'w': vp.index})

    def running(self):
        return [q for q in self.procs if q.started and not q.finished]

    # -- sweep delimiters (installed around the library's winnow helpers)
    def begin_sweep(self, n):
        self.in_sweep = True
        self.sweep_size = n
        self.sweep_polls = 0
        self.sweep_yes = False

    def end_sweep(self):
        self.in_sweep = False

    def poll(self, vp):
        """exitcode read of a started, unfinished process"""
        if self.forced_script is not None:
            if self.forced_k >= len(self.forced_script):
                raise ScheduleDivergence(
                    f'poll {self.forced_k} of worker {vp.index} beyond the '
                    f'end of the model trace')
            want_w, ans = self.forced_script[self.forced_k]
            self.forced_k += 1
            if want_w is not None and want_w != vp.index:
                raise ScheduleDivergence(
                    f'model polls worker {want_w}, implementation polls '
                    f'{vp.index}')
            finished = bool(ans)
        elif getattr(self, 'in_sweep', False):
            self.sweep_polls += 1
            last = self.sweep_polls >= self.sweep_size
            if last and not self.sweep_yes:
                finished = True          # all-"not yet" sweep pruned
            else:
                finished = (self._choose(2) == 0)
        else:
            if vp.index in self.no_since_change:
                finished = True
            else:
                finished = (self._choose(2) == 0)
        if finished:
            self.sweep_yes = True
            self.finish(vp)
        else:
            self.no_since_change.add(vp.index)
            self._emit({'ev': 'poll', 'w': vp.index, 'finished': False})
        return finished

    def finish(self, vp):
        code = vp._release_and_wait(self.child_timeout)
        vp.finished = True
        vp._exitcode = code
        self.no_since_change.clear()
        if code == 'blocked':
            self.blocked.append(vp.index)
            vp._exitcode = -999
        self._emit({'ev': 'poll', 'w': vp.index, 'finished': True,
                    'code': vp._exitcode})

    def cleanup(self):
        for vp in self.procs:
            vp._abandon()


_CURRENT = {'sched': None}


def _fault_now(mode):
    if mode == 'kill':
        os.kill(os.getpid(), signal.SIGKILL)
        time.sleep(5)
    elif mode == 'exit':
        os._exit(3)
    elif mode == 'raise':
        raise RuntimeError('verif: injected worker failure')
    else:
        raise ValueError(mode)


def _child_main(read_fd, count_fd, target, args, kwargs, fault, count_calls):
    # block until the scheduler decides this worker gets to finish
    try:
        os.read(read_fd, 1)
    finally:
        os.close(read_fd)
    mode, point = fault if fault is not None else (None, None)
    if mode is not None and point == 'before':
        _fault_now(mode)
    n_calls = [0]
    if count_calls or (mode is not None and isinstance(point, (list, tuple))):
        limit = point[1] if (mode is not None
                             and isinstance(point, (list, tuple))) else None

        def prof(frame, event, arg):
            if event != 'call':
                return
            fn = frame.f_code.co_filename
            if 'cell_type_mapper' not in fn or '/verif/' in fn:
                return
            n_calls[0] += 1
            if limit is not None and n_calls[0] == limit:
                sys.setprofile(None)
                _fault_now(mode)

        sys.setprofile(prof)
    try:
        target(*args, **kwargs)
    finally:
        sys.setprofile(None)
        if count_fd is not None:
            try:
                os.write(count_fd, str(n_calls[0]).encode() + b'\n')
                os.close(count_fd)
            except OSError:
                pass
    if mode is not None and point == 'after':
        _fault_now(mode)


class VProc(object):
    """drop-in for multiprocessing.Process under a Scheduler"""

    def __init__(self, group=None, target=None, name=None, args=(),
                 kwargs=None, daemon=None):
        self._sched = _CURRENT['sched']
        if self._sched is None:
            raise RuntimeError('vproc installed without a scheduler')
        self._target = target
        self._args = tuple(args)
        self._kwargs = dict(kwargs or {})
        self.name = name or 'VProc'
        self.daemon = daemon
        self.started = False
        self.finished = False
        self._exitcode = None
        self._real = None
        self._wfd = None
        self._count_r = None
        self.n_calls = None
        self.index = None
        self._sched.on_create(self)

    # -- multiprocessing.Process API used by the library
    def start(self):
        if self.started:
            raise AssertionError('cannot start a process twice')
        rfd, wfd = os.pipe()
        count_r = count_w = None
        if self._sched.count_calls:
            count_r, count_w = os.pipe()
        fault = self._sched.faults.get(self.index)
        self._real = _ORIG['process'](
            target=_child_main,
            args=(rfd, count_w, self._target, self._args, self._kwargs,
                  fault, self._sched.count_calls))
        self._real.start()
        os.close(rfd)
        if count_w is not None:
            os.close(count_w)
        self._count_r = count_r
        self._wfd = wfd
        self.started = True
        self._sched.on_start(self)

    @property
    def pid(self):
        return None if self._real is None else self._real.pid

    @property
    def exitcode(self):
        if not self.started:
            return None
        if self.finished:
            return self._exitcode
        if self._sched.poll(self):
            return self._exitcode
        return None

    def is_alive(self):
        if not self.started or self.finished:
            return False
        return not self._sched.poll(self)

    def join(self, timeout=None):
        if not self.started:
            raise AssertionError('can only join a started process')
        if not self.finished:
            # waiting for a process forces it to completion
            self._sched.finish(self)

    def terminate(self):
        self._abandon()
        self.finished = True
        if self._exitcode is None:
            self._exitcode = -signal.SIGTERM

    kill = terminate

    def close(self):
        pass

    # -- scheduler side
    def _release_and_wait(self, timeout):
        try:
            os.write(self._wfd, b'g')
        except OSError:
            pass
        try:
            os.close(self._wfd)
        except OSError:
            pass
        self._wfd = None
        self._real.join(timeout)
        if self._real.is_alive():
            try:
                os.kill(self._real.pid, signal.SIGKILL)
            except OSError:
                pass
            self._real.join(5)
            return 'blocked'
        if self._count_r is not None:
            try:
                data = os.read(self._count_r, 64)
                self.n_calls = int(data.decode().strip() or 0)
            except (OSError, ValueError):
                self.n_calls = None
            os.close(self._count_r)
            self._count_r = None
        return self._real.exitcode

    def _abandon(self):
        """kill a child that was never released (run aborted early)"""
        if self._real is not None and self._wfd is not None:
            try:
                os.kill(self._real.pid, signal.SIGKILL)
            except OSError:
                pass
            try:
                os.close(self._wfd)
            except OSError:
                pass
            self._wfd = None
            self._real.join(5)
        if self._count_r is not None:
            try:
                os.close(self._count_r)
            except OSError:
                pass
            self._count_r = None


_WINNOW = {'patched': []}


def _wrap_winnow(orig):
    def winnow(container, *args, **kwargs):
        sched = _CURRENT['sched']
        if sched is None:
            return orig(container, *args, **kwargs)
        sched.begin_sweep(len(container))
        try:
            return orig(container, *args, **kwargs)
        finally:
            sched.end_sweep()
    winnow._verif_orig = orig
    return winnow


def _patch_winnow():
    import cell_type_mapper.utils.multiprocessing_utils as mpu
    names = ('winnow_process_list', 'winnow_process_dict')
    origs = {n: getattr(mpu, n) for n in names if hasattr(mpu, n)}
    for modname, mod in list(sys.modules.items()):
        if mod is None or not modname.startswith('cell_type_mapper'):
            continue
        for n, orig in origs.items():
            cur = getattr(mod, n, None)
            if cur is orig:
                setattr(mod, n, _wrap_winnow(orig))
                _WINNOW['patched'].append((mod, n, orig))


def _unpatch_winnow():
    for mod, n, orig in _WINNOW['patched']:
        setattr(mod, n, orig)
    _WINNOW['patched'] = []


def install(scheduler):
    if _ORIG['process'] is None:
        _ORIG['process'] = multiprocessing.Process
    _CURRENT['sched'] = scheduler
    multiprocessing.Process = VProc
    _patch_winnow()


def uninstall():
    if _CURRENT['sched'] is not None:
        _CURRENT['sched'].cleanup()
    _CURRENT['sched'] = None
    _unpatch_winnow()
    if _ORIG['process'] is not None:
        multiprocessing.Process = _ORIG['process']


def run_under(fn, script=None, faults=None, forced_script=None,
              count_calls=False, observer=None, child_timeout=60.0):
    """
    fn() runs one stage of the library; returns (result, error, scheduler).
    """
    import traceback
    sched = Scheduler(script=script, faults=faults,
                      forced_script=forced_script, count_calls=count_calls,
                      child_timeout=child_timeout)
    sched.observer = observer
    install(sched)
    result = None
    error = None
    try:
        result = fn()
    except ScheduleDivergence:
        raise
    except BaseException as e:
        if isinstance(e, KeyboardInterrupt):
            raise
        error = f'{type(e).__name__}: {e}'
        sched.error_tb = traceback.format_exc()
    finally:
        uninstall()
    return result, error, sched
