"""
Run every pipeline stage once (real processes, default schedule) in THIS
interpreter's hash-seed universe and print one JSON line of digests.
usage: python -m mc.hashseed_worker <scratch dir> <seed>
"""
import hashlib
import json
import os
import pathlib
import sys


def main():
    from mc import common, refdata, scenario, stages
    common.env_setup()
    import warnings
    warnings.filterwarnings('ignore')
    base = pathlib.Path(sys.argv[1])
    seed = int(sys.argv[2])
    real_stdout = sys.stdout
    sys.stdout = open(os.devnull, 'w')
    scratch = common.Scratch(base)
    out = {}
    # iteration order of a small string set in this interpreter
    probe = ''.join(list({'alpha', 'beta', 'gamma', 'delta'}))
    out['probe'] = probe
    cat = stages.stage_catalog('quick')
    for name in ('mapping_cli_4x3', 'mapping_direct_3x2', 'precompute_3',
                 'refmarkers_2', 'pmask_4x2', 'frompmask_2', 'qmarkers_3',
                 'transpose_3'):
        st = cat[name]
        st.prepare(scratch, seed)
        obs = st.run('h')
        if obs.get('error'):
            out[name] = 'ERROR ' + str(obs['error'])
        else:
            out[name] = hashlib.sha1(
                refdata.canon(obs['digest']).encode()).hexdigest()
    # a hierarchical mapping with several parents per level
    spec = {'L': 3, 'shape': ((((), ()), ((), ())), (((), ()), ((),))),
            'scheme': 'B', 'n_cells': 8, 'seed': seed,
            'marker_mode': 'fallback'}
    b = scenario.build(spec, scratch.new_dir('in') / 'in')
    o = scenario.run_mapping(b, {'chunk_size': 8, 'n_processors': 2,
                                 'factor': 0.5, 'iterations': 5},
                             scratch.new_dir('r'))
    out['mapping_deep'] = hashlib.sha1(refdata.canon(
        (o.blob or {}).get('results')).encode()).hexdigest() \
        if o.ok else 'ERROR ' + str(o.error)
    # even iteration counts and weak cells: exact vote ties between sibling
    # nodes above the leaf level, whose resolution must not depend on the
    # iteration order of a set
    ties = 0
    spec = dict(spec, n_cells=16, marker_mode='full')
    b = scenario.build(spec, scratch.new_dir('in') / 'in')
    for it in (2, 4):
        o = scenario.run_mapping(b, {'chunk_size': 16, 'n_processors': 2,
                                     'factor': 0.34, 'iterations': it,
                                     'n_runners_up': 3},
                                 scratch.new_dir('r'))
        out[f'mapping_deep_ties_{it}'] = hashlib.sha1(refdata.canon(
            (o.blob or {}).get('results')).encode()).hexdigest() \
            if o.ok else 'ERROR ' + str(o.error)
        if o.ok:
            for rec in o.blob['results']:
                for lv in b.model['hierarchy'][:-1]:
                    rp = rec[lv].get('runner_up_probability') or []
                    if rp and abs(rp[0] - rec[lv][
                            'bootstrapping_probability']) < 1e-12:
                        ties += 1
    out['ties'] = ties
    sys.stdout = real_stdout
    print(json.dumps(out))


if __name__ == '__main__':
    main()
