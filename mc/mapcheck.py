"""
Run one mapping scenario through the real pipeline and judge it with the
reference model.  Shared by C01, C02, C03 (and reused by C06/C07/C15/C17).
"""
import json
import math
import pathlib

import numpy as np

from mc import scenario, trace
from mc.models import mapping as mm


def admissible_sizes(factor, n):
    x = factor * n
    cands = {int(math.floor(x + 0.5)), int(math.ceil(x - 0.5))}
    return {max(1, c) for c in cands}


def node_factor(cfg, reduced_hierarchy, key, full_hierarchy):
    if not cfg['factor_lookup']:
        return cfg['factor']
    if key == 'None':
        return cfg['factor']
    lv = key.split('/')[0]
    li = full_hierarchy.index(lv)
    return [1.0, cfg['factor'], 0.34][li % 3]


class TraceBinding(object):
    """decodes the recorded draws into gene-name subsets per (cell, node)"""

    def __init__(self, tr, cell_ids, cfg, reduced_model, full_hierarchy):
        self.tr = tr
        self.cfg = cfg
        self.findings = []
        self.incomplete = 0
        self.full_hierarchy = full_hierarchy
        self.reduced = reduced_model
        self.cell_worker = {}
        for d in tr['dispatch']:
            for c in d.get('query_cell_names', []):
                self.cell_worker[c] = d['index']
        self.groups = {}
        for w, evs in tr['workers'].items():
            g = {}
            for node_ev, draws in trace.group_node_draws(evs):
                p = node_ev['parent']
                key = 'None' if p is None else f'{p[0]}/{p[1]}'
                g.setdefault(key, []).append((node_ev, draws))
            self.groups[w] = g
        self._seen = set()

    def _f(self, key, msg, prop='C02'):
        if (key, msg) not in self._seen:
            self._seen.add((key, msg))
            self.findings.append({'prop': prop, 'key': key, 'msg': msg})

    def subsets_for(self, cid, key, genes):
        iterations = self.cfg['iterations']
        factor = node_factor(self.cfg, self.reduced['hierarchy'], key,
                             self.full_hierarchy)
        n = len(genes)
        sizes = admissible_sizes(factor, n)
        w = self.cell_worker.get(cid)
        got = None
        if w is not None and key in self.groups.get(w, {}):
            visits = self.groups[w][key]
            if len(visits) == 1:
                got = visits[0]
        if got is None:
            if sizes == {n}:
                # draw-independent: every duplicate-free subset of size n
                # is the whole set
                return [list(genes)] * iterations
            self.incomplete += 1
            return None
        node_ev, draws = got
        where = f'worker {w} node {key}'
        qg, rg = node_ev['query_genes'], node_ev['reference_genes']
        if qg != rg:
            self._f('pairing', f'{where}: query columns {qg} paired with '
                    f'reference columns {rg}', prop='C08')
        if set(qg) != set(genes) or len(qg) != len(set(qg)):
            self._f('genes-used-differ',
                    f'{where}: genes used {sorted(qg)} but the statement '
                    f'gives {sorted(genes)}', prop='C08')
            return None
        exp_leaves = set()
        lv_child = None
        rh = self.reduced['hierarchy']
        if key == 'None':
            kids = self.reduced['nodes'][rh[0]]
            lv_child = rh[0]
        else:
            plv, pnode = key.split('/', 1)
            kids = self.reduced['children'][plv][pnode]
            lv_child = rh[rh.index(plv) + 1]
        from mc import domains
        for k in kids:
            exp_leaves |= set(domains.model_leaves_under(
                self.reduced, lv_child, k))
        if set(node_ev['reference_leaves']) != exp_leaves:
            self._f('wrong-leaves',
                    f'{where}: reference restricted to '
                    f'{sorted(node_ev["reference_leaves"])} expected '
                    f'{sorted(exp_leaves)}')
        if len(draws) != iterations:
            if sizes == {n}:
                return [list(genes)] * iterations
            self.incomplete += 1
            return None
        subsets = []
        for d in draws:
            if d['replace']:
                self._f('draw-with-replacement', f'{where}: {d}')
            if d['n'] != n or not d['a_is_arange']:
                self._f('draw-population',
                        f'{where}: drew from {d["n"]} items, node has {n}')
                return None
            if len(d['out']) not in sizes:
                self._f('draw-size',
                        f'{where}: subset of {len(d["out"])} of {n} genes '
                        f'with factor {factor}; expected {sorted(sizes)}')
            if len(set(d['out'])) != len(d['out']):
                self._f('draw-duplicates', f'{where}: {d["out"]}')
            subsets.append([qg[i] for i in d['out']])
        return subsets


def judge_mapping(b, outcome, cfg, trace_dir=None, want=('C01', 'C02', 'C03',
                                                         'C08')):
    """
    -> dict(findings=[...], stats={...}, expected=..., reduced=...)
    Uses only the files on disk (inputs and outputs) plus the trace.
    """
    findings = []
    stats = {}
    config = outcome.config
    inp = mm.read_inputs(config['precomputed_stats']['path'],
                         config['query_markers']['serialized_lookup'],
                         config['query_path'])
    full = inp.model
    drop = config['drop_level']
    reduced = mm.reduce_model(full, flatten=config['flatten'],
                              drop_level=drop)
    ta = config['type_assignment']
    exp = mm.expected_markers(reduced, inp.table, inp.query_genes,
                              inp.ref_genes, ta['min_markers'],
                              flatten=config['flatten'])
    res = {'findings': findings, 'stats': stats, 'expected': exp,
           'reduced': reduced, 'full': full, 'inputs': inp}
    blob = outcome.blob or {}
    has_results = isinstance(blob, dict) and 'results' in blob
    if exp['status'] == 'must_error':
        if outcome.ok or has_results:
            findings.append({'prop': 'C08', 'key': 'error-expected',
                             'msg': f'run succeeded although {exp["why"]}'})
        return res
    if exp['status'] == 'unjudged':
        if not outcome.ok:
            return res
    if not outcome.ok:
        findings.append({
            'prop': 'C01', 'key': 'mapping-raised',
            'msg': f'valid inputs but the run raised {outcome.error}\n'
                   f'{(outcome.tb or "")[-2500:]}'})
        return res
    if not has_results:
        findings.append({'prop': 'C01', 'key': 'no-results',
                         'msg': 'run returned but JSON has no results'})
        return res
    results = blob['results']
    if 'C01' in want:
        findings += mm.check_structure(results, inp.cell_ids, full, reduced)
        # stored taxonomy = input taxonomy
        if 'taxonomy_tree' in blob:
            out_model = mm.model_from_tree_json(blob['taxonomy_tree'])
            if out_model['hierarchy'] != full['hierarchy']:
                findings.append({'prop': 'C01', 'key': 'stored-tree',
                                 'msg': 'output tree hierarchy differs'})
    if 'C03' in want:
        findings += mm.check_confidence(
            results, full, reduced, ta['bootstrap_iteration'],
            ta['n_runners_up'])
    if 'C08' in want:
        findings += mm.check_marker_report(
            blob.get('marker_genes'), reduced, exp, inp.ref_genes)
    if 'C02' in want:
        if ta['normalization'] == 'raw':
            x = mm.log2cpm(inp.query_x)
        else:
            x = inp.query_x
        cell_vectors = {
            cid: {g: float(x[i, j]) for j, g in enumerate(inp.query_genes)}
            for i, cid in enumerate(inp.cell_ids)}
        tr = trace.read(trace_dir) if trace_dir is not None else {
            'dispatch': [], 'workers': {}}
        if not any('query_cell_names' in d for d in tr['dispatch']):
            # documented chunking as the fall-back worker assignment
            n = len(inp.cell_ids)
            eff = min(max(1, int(math.ceil(n / ta['n_processors']))),
                      ta['chunk_size'])
            tr['dispatch'] = [
                {'index': k, 'query_cell_names': inp.cell_ids[r0:r0 + eff]}
                for k, r0 in enumerate(range(0, n, eff))]
        binding = TraceBinding(tr, inp.cell_ids, outcome.cfg, reduced,
                               full['hierarchy'])
        f2, st = mm.check_votes(
            results, cell_vectors, inp.leaf_mean, inp.ref_genes, reduced,
            exp['markers'], ta['bootstrap_iteration'], ta['n_runners_up'],
            binding.subsets_for)
        findings += f2
        findings += binding.findings
        stats.update(st)
        stats['trace_incomplete'] = binding.incomplete
    return res


def run_and_judge(spec, cfg, scratch, want=('C01', 'C02', 'C03', 'C08'),
                  built=None, use_trace=True):
    """build (unless given), run once under the tracer, judge"""
    d = scratch.new_dir('s')
    b = built if built is not None else scenario.build(spec, d / 'in')
    run_dir = scratch.new_dir('r')
    tdir = run_dir / 'trace'
    if use_trace:
        trace.install(tdir)
        trace.retarget(tdir)
    try:
        outcome = scenario.run_mapping(b, cfg, run_dir)
    finally:
        if use_trace:
            trace.uninstall()
        from mc import common
        common.close_leaked_h5()
    res = judge_mapping(b, outcome, outcome.cfg,
                        trace_dir=tdir if use_trace else None, want=want)
    res['outcome'] = outcome
    res['built'] = b
    res['run_dir'] = run_dir
    return res


def result_signature(results):
    """hashable digest of a results list (vacuity guard: distinct outcomes)"""
    if not results:
        return 'none'
    sig = []
    for r in results:
        row = []
        for k in sorted(r.keys()):
            if k == 'cell_id':
                continue
            v = r[k]
            row.append((k, v.get('assignment'),
                        round(float(v.get('bootstrapping_probability', 0)),
                              6)))
        sig.append(tuple(row))
    return json.dumps(sig)


def _plain(x):
    """numpy-free copy of a result structure"""
    if isinstance(x, dict):
        return {str(k): _plain(v) for k, v in x.items()}
    if isinstance(x, (list, tuple)):
        return [_plain(v) for v in x]
    if isinstance(x, np.ndarray):
        return [_plain(v) for v in x.tolist()]
    if isinstance(x, np.bool_):
        return bool(x)
    if isinstance(x, np.integer):
        return int(x)
    if isinstance(x, np.floating):
        return float(x)
    if isinstance(x, np.str_):
        return str(x)
    return x


def run_direct(b, cfg, out_dir, query_path=None):
    """
    Second seam: election_runner.run_type_assignment_on_h5ad with
    results_output_path=None, i.e. the Manager-list gathering path that the
    CLI never takes.  Returns an Outcome shaped like scenario.run_mapping's.
    """
    import traceback
    import h5py
    from cell_type_mapper.taxonomy.taxonomy_tree import TaxonomyTree
    from cell_type_mapper.type_assignment.marker_cache_v2 import (
        create_marker_cache_from_specified_markers)
    from cell_type_mapper.type_assignment.election_runner import (
        run_type_assignment_on_h5ad)
    config, c = scenario.make_config(b, cfg, out_dir, query_path=query_path)
    o = scenario.Outcome()
    o.config = config
    o.cfg = c
    o.error = None
    o.tb = None
    o.blob = None
    ta = config['type_assignment']
    from mc import common
    mark = common.stderr_mark()
    try:
        with h5py.File(config['precomputed_stats']['path'], 'r') as src:
            tree = TaxonomyTree.from_str(
                src['taxonomy_tree'][()].decode('utf-8'))
            ref_genes = json.loads(src['col_names'][()].decode('utf-8'))
        if config['drop_level'] is not None and \
                config['drop_level'] in tree.hierarchy:
            tree = tree.drop_level(config['drop_level'])
        table = json.load(open(config['query_markers']['serialized_lookup']))
        table.pop('metadata', None)
        table.pop('log', None)
        if config['flatten']:
            tree = tree.flatten()
            union = set()
            for k in table:
                union |= set(table[k])
            table = {'None': sorted(union)}
        import anndata
        q_genes = [str(g) for g in anndata.read_h5ad(
            config['query_path']).var.index.values]
        cache = pathlib.Path(out_dir) / 'direct_cache.h5'
        create_marker_cache_from_specified_markers(
            marker_lookup=table, reference_gene_names=ref_genes,
            query_gene_names=q_genes, output_cache_path=cache,
            taxonomy_tree=tree, min_markers=ta['min_markers'])
        if ta['bootstrap_factor_lookup'] is not None:
            lookup = {p[0]: p[1] for p in ta['bootstrap_factor_lookup']}
        else:
            lookup = {lv: ta['bootstrap_factor']
                      for lv in tree.hierarchy[:-1]}
            lookup['None'] = ta['bootstrap_factor']
        result = run_type_assignment_on_h5ad(
            query_h5ad_path=config['query_path'],
            precomputed_stats_path=config['precomputed_stats']['path'],
            marker_gene_cache_path=cache,
            taxonomy_tree=tree,
            n_processors=ta['n_processors'],
            chunk_size=ta['chunk_size'],
            bootstrap_factor_lookup=lookup,
            bootstrap_iteration=ta['bootstrap_iteration'],
            rng=np.random.default_rng(ta['rng_seed']),
            n_assignments=ta['n_runners_up'] + 1,
            normalization=ta['normalization'],
            tmp_dir=config['tmp_dir'],
            max_gb=config['max_gb'],
            results_output_path=None)
        o.blob = {'results': _plain(result), '__direct__': True}
    except BaseException as e:
        if isinstance(e, KeyboardInterrupt):
            raise
        o.error = f'{type(e).__name__}: {e}'
        o.tb = traceback.format_exc() + '\n--- worker stderr ---\n' + \
            common.stderr_since(mark)
    o.ok = o.error is None
    return o


def judge_direct(b, outcome, trace_dir, want):
    """
    The direct seam returns only the voted levels: judge it against the
    reduced tree as if it were the stored one.
    """
    config = outcome.config
    inp = mm.read_inputs(config['precomputed_stats']['path'],
                         config['query_markers']['serialized_lookup'],
                         config['query_path'])
    reduced = mm.reduce_model(inp.model, flatten=config['flatten'],
                              drop_level=config['drop_level'])
    ta = config['type_assignment']
    exp = mm.expected_markers(reduced, inp.table, inp.query_genes,
                              inp.ref_genes, ta['min_markers'],
                              flatten=config['flatten'])
    findings = []
    stats = {}
    res = {'findings': findings, 'stats': stats, 'expected': exp,
           'reduced': reduced, 'full': inp.model, 'inputs': inp}
    if exp['status'] != 'ok':
        return res
    if not outcome.ok:
        findings.append({
            'prop': 'C01', 'key': 'mapping-raised',
            'msg': f'direct seam raised {outcome.error}\n'
                   f'{(outcome.tb or "")[-2500:]}'})
        return res
    results = outcome.blob['results']
    if 'C01' in want:
        findings += mm.check_structure(results, inp.cell_ids, reduced,
                                       reduced)
    if 'C03' in want:
        findings += mm.check_confidence(
            results, reduced, reduced, ta['bootstrap_iteration'],
            ta['n_runners_up'])
    if 'C02' in want:
        x = mm.log2cpm(inp.query_x) if ta['normalization'] == 'raw' \
            else inp.query_x
        cell_vectors = {
            cid: {g: float(x[i, j]) for j, g in enumerate(inp.query_genes)}
            for i, cid in enumerate(inp.cell_ids)}
        tr = trace.read(trace_dir)
        binding = TraceBinding(tr, inp.cell_ids, outcome.cfg, reduced,
                               inp.model['hierarchy'])
        f2, st = mm.check_votes(
            results, cell_vectors, inp.leaf_mean, inp.ref_genes, reduced,
            exp['markers'], ta['bootstrap_iteration'], ta['n_runners_up'],
            binding.subsets_for)
        findings += f2 + binding.findings
        stats.update(st)
        stats['trace_incomplete'] = binding.incomplete
    return res


def run_and_judge_direct(b, cfg, scratch, want=('C01', 'C02', 'C03')):
    run_dir = scratch.new_dir('rd')
    tdir = run_dir / 'trace'
    trace.install(tdir)
    trace.retarget(tdir)
    try:
        outcome = run_direct(b, cfg, run_dir)
    finally:
        trace.uninstall()
        from mc import common
        common.close_leaked_h5()
    res = judge_direct(b, outcome, tdir, want)
    res['outcome'] = outcome
    res['built'] = b
    res['run_dir'] = run_dir
    return res


# ------------------------------------------------------------ paired runs

def compare_records(ra, rb, levels, tol=0.0):
    """differences between two result records at the given levels"""
    out = []
    for lv in levels:
        a, b = ra.get(lv), rb.get(lv)
        if a is None or b is None:
            out.append(f'{lv}: missing ({a is None},{b is None})')
            continue
        for k in ('assignment', 'bootstrapping_probability',
                  'runner_up_assignment', 'runner_up_probability',
                  'directly_assigned'):
            if a.get(k) != b.get(k):
                out.append(f'{lv}.{k}: {a.get(k)!r} != {b.get(k)!r}')
        for k in ('avg_correlation', 'aggregate_probability'):
            x, y = a.get(k), b.get(k)
            if x is None or y is None:
                if x != y:
                    out.append(f'{lv}.{k}: {x!r} != {y!r}')
            elif abs(x - y) > tol:
                out.append(f'{lv}.{k}: {x!r} != {y!r} (tol {tol})')
        xa, xb = a.get('runner_up_correlation'), b.get(
            'runner_up_correlation')
        if (xa is None) != (xb is None):
            out.append(f'{lv}.runner_up_correlation: {xa!r} != {xb!r}')
        elif xa is not None:
            if len(xa) != len(xb) or any(
                    abs(p - q) > tol for p, q in zip(xa, xb)):
                out.append(f'{lv}.runner_up_correlation: {xa} != {xb}')
    return out


def compare_results(res_a, res_b, levels, tol=0.0, skip=(), rename=None):
    """join on cell id (rename: id in b -> id in a); -> list of messages"""
    by_a = {r['cell_id']: r for r in res_a}
    out = []
    for rb in res_b:
        cid = rb['cell_id']
        cid_a = rename.get(cid, cid) if rename else cid
        if cid_a in skip:
            continue
        if cid_a not in by_a:
            out.append(f'cell {cid}: absent from the other run')
            continue
        d = compare_records(by_a[cid_a], rb, levels, tol)
        if d:
            out.append(f'cell {cid}: ' + '; '.join(d[:4]))
    return out


def fragile_cells(b, config, margin=1e-7):
    """
    Cells whose nearest-centroid choice at some node of the (reduced)
    taxonomy is decided by less than `margin` when all markers are used:
    a different floating-point evaluation order may legitimately flip them,
    so relations that perturb floating point skip them (DESIGN D-c).
    """
    inp = mm.read_inputs(config['precomputed_stats']['path'],
                         config['query_markers']['serialized_lookup'],
                         config['query_path'])
    reduced = mm.reduce_model(inp.model, flatten=config['flatten'],
                              drop_level=config['drop_level'])
    ta = config['type_assignment']
    exp = mm.expected_markers(reduced, inp.table, inp.query_genes,
                              inp.ref_genes, ta['min_markers'],
                              flatten=config['flatten'])
    if exp['status'] != 'ok':
        return set(inp.cell_ids)
    x = mm.log2cpm(inp.query_x) if ta['normalization'] == 'raw' \
        else inp.query_x
    ref_idx = {g: j for j, g in enumerate(inp.ref_genes)}
    frag = set()
    from mc import domains
    rh = reduced['hierarchy']
    for key, lv, node, anc in mm.consulted_parents(reduced):
        genes = sorted(exp['markers'][key])
        if key == 'None':
            kids, child_lv = reduced['nodes'][rh[0]], rh[0]
        else:
            kids = reduced['children'][lv][node]
            child_lv = rh[rh.index(lv) + 1]
        leaves = []
        for k in kids:
            leaves += domains.model_leaves_under(reduced, child_lv, k)
        for i, cid in enumerate(inp.cell_ids):
            cv = [x[i, inp.query_genes.index(g)] for g in genes]
            cs = sorted((mm.pearson(
                cv, [inp.leaf_mean[leaf][ref_idx[g]] for g in genes])
                for leaf in leaves), reverse=True)
            if len(cs) > 1 and cs[0] - cs[1] < margin:
                frag.add(cid)
    return frag


def run_rewrite_history(base_spec, scratch, want):
    """
    "Start from non-initial states": successive mappings in ONE interpreter
    whose input files are rewritten IN PLACE (same paths, new content)
    between runs, with and without a scratch directory and through both
    seams.  Every run is judged from the files as they are when it runs.
    -> list of (step label, finding)
    """
    from mc import common
    d = scratch.new_dir('rw') / 'in'
    steps = [
        ({'seed_shift': 0, 'n_cells': 5, 'id_prefix': 'q'}, 'result_dir',
         'cli'),
        ({'seed_shift': 1, 'n_cells': 5, 'id_prefix': 'r'}, 'result_dir',
         'cli'),
        ({'seed_shift': 2, 'n_cells': 5, 'id_prefix': 'r',
          'reverse_ids': True}, 'result_dir', 'cli'),
        ({'seed_shift': 3, 'n_cells': 4, 'id_prefix': 'q'}, 'result_dir',
         'direct'),
        ({'seed_shift': 4, 'n_cells': 4, 'id_prefix': 's'}, 'tmp_dir',
         'cli'),
        ({'seed_shift': 5, 'n_cells': 6, 'id_prefix': 'q'}, 'result_dir',
         'direct'),
    ]
    out = []
    n = 0
    for si, (delta, buf, seam) in enumerate(steps):
        spec = dict(base_spec)
        # same taxonomy, gene names and file paths; new profiles and cells
        spec['value_seed'] = 1000 + base_spec['seed'] + delta['seed_shift']
        for k in ('n_cells', 'id_prefix', 'reverse_ids'):
            if k in delta:
                spec[k] = delta[k]
        common.close_leaked_h5()
        b = scenario.build(spec, d)          # same paths, new content
        cfg = {'buffer': buf, 'factor': 0.5, 'iterations': 3,
               'chunk_size': 2, 'n_processors': 2}
        if seam == 'cli':
            res = run_and_judge(None, cfg, scratch, want=want, built=b)
        else:
            res = run_and_judge_direct(b, cfg, scratch, want=want)
        n += 1
        label = (f'step {si} of an in-place rewrite history (ids '
                 f'{b.cell_ids}, buffers in {buf}, seam {seam})')
        for f in res['findings']:
            out.append((label, f))
    return n, out
