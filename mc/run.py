"""CLI: python -m mc.run <Cxx> <quick|thorough> [--replay file]"""
import argparse
import os
import sys

from mc import common


def main():
    ap = argparse.ArgumentParser()
    ap.add_argument('property')
    ap.add_argument('tier', nargs='?', default=None,
                    choices=['quick', 'thorough'])
    ap.add_argument('--replay', default=None)
    args = ap.parse_args()
    tier = args.tier or os.environ.get('VERIF_TIER') or 'quick'
    if tier not in ('quick', 'thorough'):
        tier = 'quick'
    os.environ.setdefault('PYTHONHASHSEED', '0')
    module = f'mc.checks.{args.property.lower()}'
    runner = common.Runner(module, tier)
    try:
        rc = runner.main(replay_path=args.replay)
    finally:
        runner.close()
    sys.exit(rc)


if __name__ == '__main__':
    main()
