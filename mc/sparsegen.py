"""
Small sparse matrices and their on-disk encodings, written with h5py /
anndata only (shared by C05, C13, C16).
"""
import itertools

import anndata
import h5py
import numpy as np
import pandas as pd
import scipy.sparse as sp


def pattern_matrix(pattern, dtype=float):
    """0/1 pattern (tuple of row tuples) -> dense matrix whose non-zero at
    (i, j) is 1 + i*n_cols + j, so any misplacement is visible"""
    p = np.array(pattern, dtype=int)
    if p.ndim == 1:
        p = p.reshape((1, -1))
    r, c = p.shape
    vals = 1 + np.arange(r * c).reshape((r, c))
    return (p * vals).astype(dtype)


def all_patterns(max_rows, max_cols):
    for r in range(1, max_rows + 1):
        for c in range(1, max_cols + 1):
            for bits in itertools.product((0, 1), repeat=r * c):
                yield tuple(tuple(bits[i * c:(i + 1) * c]) for i in range(r))


def boundary_matrix(counts, n_cols):
    """dense matrix with len(counts) rows; row r has counts[r] stored
    entries spread over the columns (round-robin from column r), values
    position coded.  n_cols >= max(counts)."""
    n_rows = len(counts)
    m = np.zeros((n_rows, n_cols))
    for r, k in enumerate(counts):
        cols = [(r * 7 + 3 * j) % n_cols for j in range(n_cols)]
        # a permutation of the columns when gcd(3, n_cols) == 1
        seen = []
        for cidx in cols:
            if cidx not in seen:
                seen.append(cidx)
        for cidx in range(n_cols):
            if cidx not in seen:
                seen.append(cidx)
        for cidx in seen[:k]:
            m[r, cidx] = 1 + r * n_cols + cidx
    return m


def wide_matrix(n_rows, n_cols, seed, density=0.35):
    rng = np.random.default_rng(seed)
    m = (rng.uniform(size=(n_rows, n_cols)) < density) * (
        1 + np.arange(n_rows * n_cols).reshape((n_rows, n_cols)))
    return m.astype(float)


def write_sparse_group(grp, mat, kind, dtype=None, chunks=None,
                       index_dtype=None):
    """write mat as anndata-style csr/csc group into h5py group `grp`"""
    s = sp.csr_matrix(mat) if kind == 'csr' else sp.csc_matrix(mat)
    s.sort_indices()
    data = s.data if dtype is None else s.data.astype(dtype)
    idx_t = s.indices.dtype if index_dtype is None else index_dtype
    kw = {}
    for name, arr in (('data', data), ('indices', s.indices.astype(idx_t)),
                      ('indptr', s.indptr.astype(idx_t))):
        kw = {}
        if chunks is not None and len(arr) > 0 and name != 'indptr':
            kw['chunks'] = (min(chunks, len(arr)),)
        grp.create_dataset(name, data=arr, **kw)
    grp.attrs['encoding-type'] = f'{kind}_matrix'
    grp.attrs['encoding-version'] = '0.1.0'
    grp.attrs['shape'] = np.array(mat.shape)


def write_h5ad(path, mat, encoding, layer='X', dtype=None, chunks=None,
               obs_ids=None, var_ids=None, extra_layer=None):
    """
    h5ad whose matrix sits in X or layers/<layer>, in the given encoding,
    numeric type and HDF5 chunk layout (chunks: None = contiguous / anndata
    default, int = chunk length (rows for dense)).
    """
    mat = np.asarray(mat)
    n_rows, n_cols = mat.shape
    obs_ids = obs_ids or [f'cell_{i}' for i in range(n_rows)]
    var_ids = var_ids or [f'gene_{j}' for j in range(n_cols)]
    obs = pd.DataFrame({'o': [f'o{i}' for i in range(n_rows)]},
                       index=pd.Index(obs_ids, name='cell_id'))
    var = pd.DataFrame({'v': [f'v{j}' for j in range(n_cols)]},
                       index=pd.Index(var_ids, name='gene_id'))
    a = anndata.AnnData(obs=obs, var=var)
    a.write_h5ad(path)
    with h5py.File(path, 'a') as dst:
        if layer == 'X':
            if 'X' in dst:
                del dst['X']
            target_parent, name = dst, 'X'
        else:
            if 'layers' not in dst:
                lg = dst.create_group('layers')
                lg.attrs['encoding-type'] = 'dict'
                lg.attrs['encoding-version'] = '0.1.0'
            target_parent, name = dst['layers'], layer
            if name in target_parent:
                del target_parent[name]
        if encoding == 'dense':
            arr = mat if dtype is None else mat.astype(dtype)
            kw = {}
            if chunks is not None and n_rows > 0 and n_cols > 0:
                kw['chunks'] = (min(chunks, n_rows), n_cols)
            ds = target_parent.create_dataset(name, data=arr, **kw)
            ds.attrs['encoding-type'] = 'array'
            ds.attrs['encoding-version'] = '0.2.0'
        else:
            grp = target_parent.create_group(name)
            write_sparse_group(grp, mat, encoding, dtype=dtype,
                               chunks=chunks)
        if extra_layer is not None:
            # a decoy X so that reading the wrong location is visible
            if layer != 'X' and 'X' not in dst:
                ds = dst.create_dataset('X', data=np.asarray(extra_layer))
                ds.attrs['encoding-type'] = 'array'
                ds.attrs['encoding-version'] = '0.2.0'
    return path


def read_x_dense(path, layer='X'):
    """independent reader: dense numpy matrix of X or a layer"""
    key = 'X' if layer == 'X' else f'layers/{layer}'
    with h5py.File(path, 'r') as src:
        node = src[key]
        if isinstance(node, h5py.Dataset):
            return node[()]
        shape = tuple(int(x) for x in node.attrs['shape'])
        enc = node.attrs['encoding-type']
        if isinstance(enc, bytes):
            enc = enc.decode()
        data = node['data'][()]
        indices = node['indices'][()]
        indptr = node['indptr'][()]
    if enc.startswith('csr'):
        return sp.csr_matrix((data, indices, indptr), shape=shape).toarray()
    return sp.csc_matrix((data, indices, indptr), shape=shape).toarray()


def check_compressed(indptr, indices, data, expected_dense, axis_label):
    """
    expected_dense: matrix whose ROWS are the major slices of the
    compressed output.  Returns messages.
    """
    msgs = []
    indptr = np.asarray(indptr).astype(np.int64)
    indices = np.asarray(indices).astype(np.int64)
    n_major, n_minor = expected_dense.shape
    nnz = int((expected_dense != 0).sum())
    if len(indptr) != n_major + 1:
        return [f'{axis_label}: indptr has {len(indptr)} entries for '
                f'{n_major} slices']
    if indptr[0] != 0 or np.any(np.diff(indptr) < 0):
        msgs.append(f'{axis_label}: indptr not monotone from 0: '
                    f'{indptr.tolist()}')
    if indptr[-1] != nnz or len(indices) != nnz:
        msgs.append(f'{axis_label}: indptr ends at {indptr[-1]}, '
                    f'{len(indices)} indices, expected {nnz} entries')
        return msgs
    if data is not None and len(data) != nnz:
        msgs.append(f'{axis_label}: {len(data)} values for {nnz} entries')
        return msgs
    for m in range(n_major):
        seg = indices[indptr[m]:indptr[m + 1]]
        exp = np.where(expected_dense[m] != 0)[0]
        if len(seg) > 1 and np.any(np.diff(seg) <= 0):
            msgs.append(f'{axis_label}: slice {m} indices not sorted/unique:'
                        f' {seg.tolist()}')
        if seg.tolist() != exp.tolist():
            msgs.append(f'{axis_label}: slice {m} has indices {seg.tolist()}'
                        f' expected {exp.tolist()}')
            continue
        if data is not None:
            vals = np.asarray(data[indptr[m]:indptr[m + 1]], dtype=float)
            if vals.tolist() != expected_dense[m, exp].astype(
                    float).tolist():
                msgs.append(f'{axis_label}: slice {m} values '
                            f'{vals.tolist()} expected '
                            f'{expected_dense[m, exp].tolist()}')
    return msgs
