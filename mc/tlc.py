"""
Run TLC on mc/tla/WorkerPool.tla for one constant assignment, read the dumped
labelled state graph back and enumerate every maximal behaviour (DESIGN.md E5).
"""
import pathlib
import re
import shutil
import subprocess
import tempfile

TLA_DIR = pathlib.Path(__file__).resolve().parent / 'tla'

INVARIANTS = ['TypeOK', 'Bounded', 'Ordered', 'DoneOK', 'RaisedOK',
              'Progress']


class TlcError(Exception):
    pass


def _fmt_set(s):
    return '{' + ', '.join(str(x) for x in sorted(s)) + '}'


def run_tlc(n_chunks, n_proc, list_idiom, fail_set=(), work_root=None):
    """-> dict(states, transitions, graph) ; raises TlcError on any
    invariant violation or tool failure"""
    work = pathlib.Path(tempfile.mkdtemp(dir=work_root, prefix='tlc_'))
    try:
        shutil.copy(TLA_DIR / 'WorkerPool.tla', work / 'WorkerPool.tla')
        cfg = (
            'CONSTANTS\n'
            f'  NChunks = {n_chunks}\n'
            f'  NProc = {n_proc}\n'
            f'  ListIdiom = {"TRUE" if list_idiom else "FALSE"}\n'
            f'  FailSet = {_fmt_set(fail_set)}\n'
            'SPECIFICATION Spec\n'
            'INVARIANTS ' + ' '.join(INVARIANTS) + '\n')
        (work / 'WorkerPool.cfg').write_text(cfg)
        cmd = ['tlc', '-workers', '1', '-noGenerateSpecTE', '-deadlock',
               '-metadir', str(work / 'meta'), '-dump', 'dot,actionlabels',
               str(work / 'graph'), 'WorkerPool.tla']
        p = subprocess.run(cmd, cwd=work, capture_output=True, text=True,
                           timeout=600)
        out = p.stdout + p.stderr
        if 'No error has been found' not in out:
            raise TlcError(out[-3000:])
        m = re.search(r'(\d+) states generated, (\d+) distinct states found',
                      out)
        graph = parse_dot((work / 'graph.dot').read_text())
        return {'states_generated': int(m.group(1)),
                'distinct_states': int(m.group(2)),
                'transitions': sum(len(v) for v in graph['edges'].values()),
                'graph': graph, 'tlc_tail': out[-400:]}
    finally:
        shutil.rmtree(work, ignore_errors=True)


def _parse_value(txt):
    txt = txt.strip()
    if txt.startswith('<<'):
        inner = txt[2:-2].strip()
        return [] if not inner else [_parse_value(x)
                                     for x in inner.split(',')]
    if txt.startswith('{'):
        inner = txt[1:-1].strip()
        return set() if not inner else {_parse_value(x)
                                        for x in inner.split(',')}
    if txt.startswith('"'):
        return txt.strip('"')
    if txt in ('TRUE', 'FALSE'):
        return txt == 'TRUE'
    return int(txt)


def parse_state(label):
    state = {}
    label = label.replace('\\n', '\n').replace('\\\\', '\\').replace(
        '\\"', '"')
    for line in label.split('\n'):
        line = line.strip()
        if not line.startswith('/\\'):
            continue
        name, val = line[2:].split('=', 1)
        state[name.strip()] = _parse_value(val)
    return state


def parse_dot(text):
    nodes = {}
    edges = {}
    init = None
    node_re = re.compile(
        r'^(-?\d+) \[label="((?:[^"\\]|\\.)*)"(,style = filled)?')
    edge_re = re.compile(r'^(-?\d+) -> (-?\d+) \[label="(\w+)"')
    for line in text.split('\n'):
        m = edge_re.match(line)
        if m:
            edges.setdefault(m.group(1), []).append(
                (m.group(3), m.group(2)))
            continue
        m = node_re.match(line)
        if m:
            nodes[m.group(1)] = parse_state(m.group(2))
            if m.group(3):
                init = m.group(1)
    if init is None:
        raise TlcError('no initial state in the dumped graph')
    return {'nodes': nodes, 'edges': edges, 'init': init}


def maximal_paths(graph, limit=200000):
    """every path from the initial state to a state without successor;
    each path is a list of (action, src_state, dst_state)"""
    out = []
    stack = [(graph['init'], [])]
    while stack:
        node, path = stack.pop()
        succ = graph['edges'].get(node, [])
        if not succ:
            out.append(path)
            if len(out) > limit:
                raise TlcError('too many maximal paths')
            continue
        for action, dst in succ:
            if any(dst == s for (_, s, _) in ()):
                pass
            stack.append((dst, path + [(action, graph['nodes'][node],
                                        graph['nodes'][dst])]))
    return out


def path_to_script(path):
    """
    -> (events, polls): events is the sequence the implementation must
    produce, as dicts like the vproc scheduler emits:
        {'ev': 'start', 'w': k} / {'ev': 'poll', 'w': k, 'finished': bool}
    polls is the forced answer list [(w, finished)] for the scheduler.
    """
    events = []
    polls = []
    for action, src, dst in path:
        if action == 'Start':
            events.append({'ev': 'start', 'w': src['next']})
        elif action in ('PollYes', 'PollNo'):
            w = src['sweep'][0]
            fin = action == 'PollYes'
            events.append({'ev': 'poll', 'w': w, 'finished': fin})
            polls.append((w, fin))
    final = path[-1][2]['phase'] if path else 'done'
    return events, polls, final
