"""
Cooperative scheduler for two pipeline runs in one interpreter (DESIGN.md E6).

Each run executes in its own thread; exactly one thread holds the baton.  A
scheduling point sits BEFORE every filesystem-mutating call the stages make
through python (tempfile.mkdtemp / mkstemp, builtins.open for writing,
shutil.copy / move / rmtree, os.unlink / remove / rmdir / mkdir / rename /
replace).  At a point the explorer may hand the baton to the other run (a
preemption); when a run finishes the baton passes on without a choice.
Worker processes are run inline (synchronously, in the calling thread) so
that an execution is a deterministic function of the choice list.
"""
import builtins
import multiprocessing
import os
import shutil
import tempfile
import threading
import traceback


class InlineProcess(object):
    """multiprocessing.Process stand-in: start() runs the target at once"""

    def __init__(self, group=None, target=None, name=None, args=(),
                 kwargs=None, daemon=None):
        self._target = target
        self._args = tuple(args)
        self._kwargs = dict(kwargs or {})
        self.exitcode = None
        self.name = name or 'inline'
        self.daemon = daemon
        self.pid = None

    def start(self):
        try:
            self._target(*self._args, **self._kwargs)
            self.exitcode = 0
        except BaseException:
            traceback.print_exc()
            self.exitcode = 1

    def join(self, timeout=None):
        return None

    def is_alive(self):
        return False

    def terminate(self):
        pass

    kill = terminate

    def close(self):
        pass


class Divergence(Exception):
    pass


class FsScheduler(object):

    def __init__(self, script):
        self.script = list(script)
        self.k = 0
        self.options = []
        self.labels = []
        self.sems = []
        self.finished = []
        self.index_of = {}
        self.results = []
        self.errors = []
        self.lock = threading.Lock()
        self.stuck = False

    # -- explorer side
    def _choose(self, n, label):
        idx = self.script[self.k] if self.k < len(self.script) else 0
        if idx >= n:
            raise Divergence(f'choice {self.k}: {idx} of {n}')
        self.k += 1
        self.options.append(n)
        self.labels.append(label)
        return idx

    def me(self):
        return self.index_of.get(threading.get_ident())

    def point(self, label):
        me = self.me()
        if me is None:
            return
        others = [t for t in range(len(self.sems))
                  if t != me and not self.finished[t]]
        if not others:
            return
        c = self._choose(1 + len(others), f'{me}:{label}')
        if c == 0:
            return
        nxt = others[c - 1]
        self.sems[nxt].release()
        if not self.sems[me].acquire(timeout=120):
            self.stuck = True
            raise RuntimeError('fsched: baton never came back')

    def _body(self, idx, fn):
        self.index_of[threading.get_ident()] = idx
        if not self.sems[idx].acquire(timeout=300):
            self.stuck = True
            return
        try:
            self.results[idx] = fn()
        except BaseException as e:
            self.errors[idx] = f'{type(e).__name__}: {e}\n' + \
                traceback.format_exc()[-1500:]
        finally:
            self.finished[idx] = True
            rest = [t for t in range(len(self.sems))
                    if not self.finished[t]]
            if rest:
                self.sems[rest[0]].release()

    def run(self, fns):
        n = len(fns)
        self.sems = [threading.Semaphore(0) for _ in range(n)]
        self.finished = [False] * n
        self.results = [None] * n
        self.errors = [None] * n
        threads = [threading.Thread(target=self._body, args=(i, fn))
                   for i, fn in enumerate(fns)]
        with patched(self):
            for t in threads:
                t.start()
            self.sems[0].release()
            for t in threads:
                t.join(600)
                if t.is_alive():
                    self.stuck = True
        return self.results, self.errors


_PATCH_LOCK = threading.Lock()


class patched(object):
    """install the scheduling points and the inline process class"""

    def __init__(self, sched):
        self.sched = sched
        self.saved = []

    def _wrap(self, mod, name, label=None, pred=None):
        orig = getattr(mod, name)
        sched = self.sched
        lab = label or name

        def wrapper(*args, **kwargs):
            if pred is None or pred(args, kwargs):
                sched.point(lab)
            return orig(*args, **kwargs)
        wrapper._verif_orig = orig
        self.saved.append((mod, name, orig))
        setattr(mod, name, wrapper)

    def __enter__(self):
        _PATCH_LOCK.acquire()
        self._wrap(tempfile, 'mkdtemp')
        self._wrap(tempfile, 'mkstemp')
        self._wrap(shutil, 'copy')
        self._wrap(shutil, 'move')
        self._wrap(shutil, 'rmtree')
        for name in ('unlink', 'remove', 'rmdir', 'mkdir', 'rename',
                     'replace'):
            self._wrap(os, name)

        def is_write(args, kwargs):
            mode = kwargs.get('mode', args[1] if len(args) > 1 else 'r')
            return isinstance(mode, str) and any(c in mode for c in 'wax+')
        self._wrap(builtins, 'open', label='open-for-write', pred=is_write)
        self.saved.append((multiprocessing, 'Process',
                           multiprocessing.Process))
        multiprocessing.Process = InlineProcess
        return self

    def __exit__(self, *exc):
        for mod, name, orig in reversed(self.saved):
            setattr(mod, name, orig)
        _PATCH_LOCK.release()
        return False
