"""
Finite domains enumerated completely by the checks (DESIGN.md E3).

Everything here is pure python / numpy and independent of cell_type_mapper.
"""
import functools
import itertools
import random


# ---------------------------------------------------------------- trees
# A shape is a nested, canonically sorted tuple: a leaf is (), an internal
# node is the sorted tuple of its children's shapes.  A taxonomy with L
# levels is the *virtual root* whose children are the level-0 nodes and
# whose leaves all sit at depth L.


@functools.lru_cache(maxsize=None)
def _subtrees(depth, n_leaves):
    """all shapes of a node with `depth` levels below it and n leaves"""
    if depth == 0:
        return ((),) if n_leaves == 1 else ()
    out = []
    # children: multiset of subtrees of depth-1 with total leaves n
    for children in _multisets(depth - 1, n_leaves, None):
        out.append(children)
    return tuple(out)


def _multisets(depth, n_leaves, max_child):
    """multisets (sorted descending tuples) of depth-`depth` subtrees whose
    leaf counts add up to n_leaves; max_child bounds the next child in the
    canonical order (a (leaves, shape) pair)"""
    if n_leaves == 0:
        yield ()
        return
    cands = []
    for k in range(n_leaves, 0, -1):
        for s in _subtrees(depth, k):
            cands.append((k, s))
    cands.sort(reverse=True)
    for c in cands:
        if max_child is not None and c > max_child:
            continue
        for rest in _multisets(depth, n_leaves - c[0], c):
            yield (c[1],) + rest


def tree_shapes(n_levels, n_leaves):
    """every tree shape with exactly n_levels levels and n_leaves leaves"""
    return list(_subtrees(n_levels, n_leaves))


def shapes_up_to(max_levels, max_leaves, min_levels=1, min_leaves=1):
    out = []
    for L in range(min_levels, max_levels + 1):
        for n in range(min_leaves, max_leaves + 1):
            for s in tree_shapes(L, n):
                out.append((L, n, s))
    return out


def shape_str(shape):
    if shape == ():
        return '.'
    return '(' + ''.join(shape_str(c) for c in shape) + ')'


# label schemes -----------------------------------------------------------

LEVEL_NAMES = {
    'A': ['class', 'subclass', 'supertype', 'cluster', 'subcluster'],
    # level names that do not sort in structural order
    'B': ['zeta', 'gamma', 'omega', 'alpha', 'mu'],
    # names needing quoting in CSV / JSON
    'C': ['lvl,one', 'lvl "two"', "lvl'three", 'lvl #4', ' lvl5'],
    # the same node labels at every level, arranged so that a node's child
    # carries the label of the node's sibling ("crossing" reuse)
    'D': ['zeta', 'gamma', 'omega', 'alpha', 'mu'],
    # names whose sorted order interleaves the children of different
    # parents (no two name-sorted neighbours share a parent when avoidable)
    'E': ['class', 'subclass', 'supertype', 'cluster', 'subcluster'],
}


def _node_name(scheme, level_idx, k, n_at_level, rnd):
    if scheme in ('A', 'E'):
        return f'n{level_idx}_{k:02d}'
    if scheme == 'B':
        # reverse order + numeric strings that sort lexicographically
        # differently from numerically; see realize_tree for the reused name
        return f'{(n_at_level - k) * 7 + 2}_x{level_idx}'
    if scheme == 'D':
        # labels a, b, c, ... shared by all levels; rotating by the level
        # index makes parent 'a' own child 'b' while 'b' is also its sibling
        return 'abcdefghijklmnop'[(k + level_idx) % max(n_at_level, 2)
                                  if n_at_level > 1 else
                                  (k + level_idx) % 16] + 'x'
    if scheme == 'C':
        decorations = ['a,b', 'c "q"', 'l\u00f6\u00df', "d'e", '#f', ' g', 'h;i', 'j\tk']
        return f'{decorations[(k + level_idx) % len(decorations)]}{level_idx}{k}'
    raise ValueError(scheme)


def realize_tree(n_levels, shape, scheme='A', seed=0, with_cells=0,
                 level_names=None):
    """
    Turn a shape into the dict the library's TaxonomyTree accepts.

    Returns (data, model) where model is the independent description:
        model['hierarchy']           list of level names
        model['nodes'][level]        list of node names (structural order)
        model['parent'][level][node] parent node name (absent for level 0)
        model['children'][level][node] list of child names
        model['leaves']              list of leaf names (structural order)
    Child lists and dict key orders are scrambled with `seed` so that no
    order the library sees coincides with the structural one.
    """
    rnd = random.Random(seed * 7919 + 13)
    if level_names is None:
        level_names = LEVEL_NAMES[scheme][:n_levels]
        if n_levels > len(LEVEL_NAMES[scheme]):
            raise ValueError('too many levels')
    hierarchy = list(level_names)
    # walk the shape breadth first
    per_level = [[] for _ in range(n_levels)]   # (name, parent_name, shape)
    frontier = [(None, c) for c in shape]
    for li in range(n_levels):
        nxt = []
        n_at = len(frontier)
        for k, (parent, sh) in enumerate(frontier):
            name = _node_name(scheme, li, k, n_at, rnd)
            per_level[li].append((name, parent, sh))
            for c in sh:
                nxt.append((name, c))
        frontier = nxt
    if scheme == 'E':
        for li in range(n_levels):
            seen_parent = {}
            order = []
            for k, (name, parent, sh) in enumerate(per_level[li]):
                j = seen_parent.get(parent, 0)
                seen_parent[parent] = j + 1
                order.append((j, k))
            rank = {k: r for r, (_, k) in enumerate(sorted(order))}
            renamed = {}
            for k, (name, parent, sh) in enumerate(per_level[li]):
                renamed[name] = f'e{li}_{rank[k]:02d}'
            per_level[li] = [(renamed[n], p, sh)
                             for (n, p, sh) in per_level[li]]
            if li + 1 < n_levels:
                per_level[li + 1] = [(n, renamed.get(p, p), sh)
                                     for (n, p, sh) in per_level[li + 1]]
    if scheme == 'B' and n_levels >= 2:
        # reuse one node name at two different levels (legal: names are
        # only unique within a level)
        name0 = per_level[0][0][0]
        old = per_level[-1][-1][0]
        per_level[-1][-1] = (name0, per_level[-1][-1][1], per_level[-1][-1][2])
        # fix references (leaves have no children so nothing else to fix)
        del old
    model = {'hierarchy': hierarchy, 'nodes': {}, 'parent': {},
             'children': {}}
    for li, level in enumerate(hierarchy):
        model['nodes'][level] = [t[0] for t in per_level[li]]
        model['parent'][level] = {t[0]: t[1] for t in per_level[li]
                                  if li > 0}
        model['children'][level] = {t[0]: [] for t in per_level[li]}
    for li in range(1, n_levels):
        for name, parent, _ in per_level[li]:
            model['children'][hierarchy[li - 1]][parent].append(name)
    model['leaves'] = list(model['nodes'][hierarchy[-1]])

    data = {}
    cell_ct = 0
    for li, level in enumerate(hierarchy):
        names = list(model['nodes'][level])
        rnd.shuffle(names)
        this = {}
        for name in names:
            if li == n_levels - 1:
                cells = []
                for _ in range(with_cells):
                    cells.append(f'c{cell_ct}')
                    cell_ct += 1
                this[name] = cells
            else:
                ch = list(model['children'][level][name])
                rnd.shuffle(ch)
                this[name] = ch
        data[level] = this
    data['hierarchy'] = list(hierarchy)
    return data, model


def model_ancestors(model, leaf):
    """dict level -> node for the path of `leaf`"""
    h = model['hierarchy']
    out = {h[-1]: leaf}
    cur = leaf
    for li in range(len(h) - 1, 0, -1):
        cur = model['parent'][h[li]][cur]
        out[h[li - 1]] = cur
    return out


def model_leaves_under(model, level, node):
    h = model['hierarchy']
    li = h.index(level)
    cur = [node]
    for lj in range(li, len(h) - 1):
        nxt = []
        for n in cur:
            nxt += model['children'][h[lj]][n]
        cur = nxt
    return cur


def model_drop_level(model, level):
    """the model of the tree with `level` removed (children re-attached)"""
    h = model['hierarchy']
    li = h.index(level)
    new = {'hierarchy': [x for x in h if x != level], 'nodes': {},
           'parent': {}, 'children': {}}
    for lv in new['hierarchy']:
        new['nodes'][lv] = list(model['nodes'][lv])
        new['parent'][lv] = dict(model['parent'][lv])
        new['children'][lv] = {k: list(v)
                               for k, v in model['children'][lv].items()}
    if li == 0:
        new['parent'][new['hierarchy'][0]] = {}
    elif li < len(h) - 1:
        above, below = h[li - 1], h[li + 1]
        new['parent'][below] = {
            n: model['parent'][level][model['parent'][below][n]]
            for n in model['nodes'][below]}
        new['children'][above] = {n: [] for n in model['nodes'][above]}
        for n in model['nodes'][below]:
            new['children'][above][new['parent'][below][n]].append(n)
    else:
        # dropping the leaf level: the level above becomes the leaf level
        new['children'][h[li - 1]] = {n: [] for n in model['nodes'][h[li - 1]]}
    new['leaves'] = list(new['nodes'][new['hierarchy'][-1]])
    return new


# ------------------------------------------------------- small enumerators

def compositions(n, max_parts=None):
    """ordered tuples of positive ints summing to n"""
    if n == 0:
        yield ()
        return
    for first in range(1, n + 1):
        for rest in compositions(n - first,
                                 None if max_parts is None else max_parts - 1):
            if max_parts is not None and 1 + len(rest) > max_parts:
                continue
            yield (first,) + rest


def subsets(items, min_size=0, max_size=None):
    items = list(items)
    if max_size is None:
        max_size = len(items)
    for k in range(min_size, max_size + 1):
        for c in itertools.combinations(items, k):
            yield c


def binary_patterns(n_rows, n_cols):
    """every 0/1 matrix n_rows x n_cols as a tuple of row tuples"""
    for bits in itertools.product((0, 1), repeat=n_rows * n_cols):
        yield tuple(tuple(bits[r * n_cols:(r + 1) * n_cols])
                    for r in range(n_rows))


def deviations(default, alphabets, bound):
    """
    Configuration vectors within `bound` deviations of `default`.

    default: dict name -> value;  alphabets: dict name -> list of
    alternative values (the default value itself may be omitted).
    Yields (config dict, tuple of deviating names).
    """
    names = sorted(alphabets.keys())
    yield dict(default), ()
    for d in range(1, bound + 1):
        for combo in itertools.combinations(names, d):
            alt_lists = [[v for v in alphabets[n] if v != default[n]]
                         for n in combo]
            for alts in itertools.product(*alt_lists):
                cfg = dict(default)
                for n, v in zip(combo, alts):
                    cfg[n] = v
                yield cfg, combo
