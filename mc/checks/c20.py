"""
C20 - cloud-safe outputs reveal no absolute path of the host.

Bounded exhaustive exploration of run_mapping(cloud_safe=True): every
directory-name letter of the alphabet at each of the input / output / scratch
positions (deviation-bounded) x layout variants x EVERY outcome class
(success, each class of invalid input, injected worker failure in each mode).
Every string the run records (JSON config and log, HDF5 metadata, log file)
is scanned with an oracle deliberately stronger than the library's sanitiser.
"""
import json
import os
import pathlib
import re
import sys

import h5py
import numpy as np

from mc import domains, scenario, vproc

PROPERTY = 'C20'
LEVEL = 'exploration'
RULE = ("directory names over {plain, 'a,b', 'a[1]', 'a(b)', \"a'b\", "
        "'k=v', 'x+y', 'd$1'} at input / output / scratch position within d "
        "deviations of all-plain, layouts {separate, scratch inside output, "
        "input = output}, x outcome classes {success, missing / corrupt / "
        "attribute-less query, statistics without taxonomy, missing / "
        "malformed / disjoint marker table, marker table in a missing "
        "directory, unknown reference gene, negative raw, bad "
        "normalisation, leaf drop_level, CSV in a missing directory, worker "
        "killed / exiting / raising}.  distinct_nontrivial = distinct "
        "(names, layout, outcome) runs whose recorded text was scanned")
ASSUMPTIONS = [
    "only text that real runs emit is scanned",
    "the exception propagated to the caller is not an output file",
]
CASE_TIMEOUT = 900

NAMES = ['plain', 'a,b', 'a[1]', 'a(b)', "a'b", 'k=v', 'x+y', 'd$1']
OUTCOMES = ['success', 'missing_query', 'corrupt_query', 'attrless_query',
            'stats_no_tree', 'missing_markers', 'malformed_markers',
            'disjoint_markers', 'markers_in_missing_dir', 'unknown_ref_gene',
            'negative_raw', 'bad_normalization', 'leaf_drop_level',
            'csv_missing_dir', 'worker_kill', 'worker_exit', 'worker_raise']


def bounds(tier):
    return {'names': NAMES, 'deviation_bound': 1 if tier == 'quick' else 2,
            'layouts': ['separate', 'scratch_in_output', 'input_is_output'],
            'outcomes': OUTCOMES}


def cases(tier, seed):
    b = bounds(tier)
    default = {'in': 'plain', 'out': 'plain', 'scr': 'plain'}
    alph = {'in': NAMES[1:], 'out': NAMES[1:], 'scr': NAMES[1:]}
    for names, dev in domains.deviations(default, alph,
                                         b['deviation_bound']):
        for layout in b['layouts']:
            if layout != 'separate' and len(dev) > 1:
                continue
            yield {'names': names, 'layout': layout, 'seed': seed}
    # deep layouts: every component short, the whole path longer than a
    # single file name may be (255) / than 512 characters
    for depth in (9, 18):
        for name in ('plain', "a'b"):
            yield {'names': {'in': name, 'out': name, 'scr': name},
                   'layout': 'separate', 'seed': seed, 'depth': depth}
    # no separate log file requested
    for name in ('plain', 'a(b)'):
        yield {'names': {'in': name, 'out': 'plain', 'scr': 'plain'},
               'layout': 'separate', 'seed': seed, 'no_log_file': True}


PUNCT = '\'"()[]{}<>,;:=`'


def scan(text, roots, where):
    """-> list of leak messages for one recorded string"""
    out = []
    for r in roots:
        if r and r in text:
            i = text.index(r)
            out.append(f'{where}: contains {r!r}: '
                       f'...{text[max(0, i - 40):i + len(r) + 60]!r}')
            return out
    for tok in text.split():
        t = tok.strip(PUNCT + '.')
        # also look inside key=value / (path) / 'path', glue
        cands = {t}
        for sep in '=(,:':
            for part in t.split(sep):
                cands.add(part.strip(PUNCT + '.'))
        for c in cands:
            if not c.startswith('/') or len(c) < 2:
                continue
            p = pathlib.Path(c)
            try:
                if p.parent != pathlib.Path('/') and p.parent.exists():
                    out.append(f'{where}: absolute path {c!r} '
                               f'(token {tok!r})')
                    return out
                if p.exists() and p != pathlib.Path('/'):
                    out.append(f'{where}: existing path {c!r}')
                    return out
            except OSError:
                pass
    return out


def strings_of(x, prefix=''):
    if isinstance(x, str):
        yield prefix, x
    elif isinstance(x, dict):
        for k, v in x.items():
            yield from strings_of(str(k), prefix + '/key')
            yield from strings_of(v, f'{prefix}/{k}')
    elif isinstance(x, (list, tuple)):
        for i, v in enumerate(x):
            yield from strings_of(v, f'{prefix}[{i}]')


def evaluate(case, scratch):
    import cell_type_mapper
    names = case['names']
    root = scratch.new_dir('layout')
    for k in range(case.get('depth', 0)):
        root = root / f'level_{k:02d}_of_a_deep_directory_tree'
    root.mkdir(parents=True, exist_ok=True)
    in_dir = root / 'I' / names['in']
    out_dir = root / 'O' / names['out']
    if case['layout'] == 'input_is_output':
        out_dir = in_dir
    scr_dir = root / 'S' / names['scr']
    if case['layout'] == 'scratch_in_output':
        scr_dir = out_dir / names['scr']
    for d in (in_dir, out_dir, scr_dir):
        d.mkdir(parents=True, exist_ok=True)
    spec = {'L': 2, 'shape': (((), ()), ((),)), 'scheme': 'B', 'n_cells': 4,
            'seed': case['seed'], 'marker_mode': 'full',
            'stats_name': 'stats file.h5'.replace(' ', '_')}
    b = scenario.build(spec, in_dir)
    pkg_root = str(pathlib.Path(cell_type_mapper.__file__).resolve()
                   .parent.parent)
    roots = [str(root), str(scratch.base), pkg_root,
             str(pathlib.Path(sys.prefix).resolve()),
             os.path.expanduser('~'), os.getcwd(), '/venv/', '/repo/']
    roots = [r for r in dict.fromkeys(roots) if r and r != '/']
    violations = []
    keys = []
    n = 0
    outcomes = set()
    sample = None
    for oc in OUTCOMES:
        run_dir = out_dir / f'run_{oc}'
        run_dir.mkdir(exist_ok=True)
        this_scr = scr_dir / f's_{oc}'
        this_scr.mkdir(exist_ok=True)
        edit, faults, qpath, norm = outcome_setup(oc, b, in_dir, run_dir)

        def config_edit(config, edit=edit, run_dir=run_dir,
                        this_scr=this_scr):
            config['tmp_dir'] = str(this_scr)
            if edit is not None:
                edit(config)
            if case.get('no_log_file'):
                config['log_path'] = None

        cfg = {'normalization': norm, 'cloud_safe': True,
               'chunk_size': 2, 'n_processors': 2}
        if faults is not None:
            (o, err, sched) = vproc.run_under(
                lambda: scenario.run_mapping(b, cfg, run_dir,
                                             query_path=qpath,
                                             config_edit=config_edit),
                script=[], faults=faults, child_timeout=20.0)
        else:
            o = scenario.run_mapping(b, cfg, run_dir, query_path=qpath,
                                     config_edit=config_edit)
        n += 1
        desc = (f"dirs in={names['in']!r} out={names['out']!r} "
                f"scratch={names['scr']!r} layout={case['layout']} "
                f"outcome={oc}"
                + (f" depth={case['depth']}" if case.get('depth') else '')
                + (' log_path=None' if case.get('no_log_file') else ''))
        if o is None:
            violations.append({'key': 'harness', 'msg': f'{desc}: {err}'})
            continue
        expect_ok = (oc == 'success')
        outcomes.add(f'{oc}:{"ok" if o.ok else "err"}')
        if o.ok != expect_ok:
            # the outcome class did not produce the intended outcome: not a
            # leak, but the evidence should not count it
            outcomes.add(f'UNEXPECTED {oc}: ok={o.ok} {str(o.error)[:80]}')
        leaks = []
        config = o.config
        jp = pathlib.Path(config['extended_result_path'])
        if jp.exists():
            try:
                blob = json.load(open(jp))
            except ValueError:
                blob = None
            if blob is not None:
                for where, s in strings_of(blob.get('config'), 'json.config'):
                    leaks += scan(s, roots, where)
                for where, s in strings_of(blob.get('log'), 'json.log'):
                    leaks += scan(s, roots, where)
                for where, s in strings_of(blob.get('metadata'),
                                           'json.metadata'):
                    leaks += scan(s, roots, where)
        hp = config.get('hdf5_result_path')
        if hp and pathlib.Path(hp).exists():
            try:
                with h5py.File(hp, 'r') as src:
                    md = json.loads(src['metadata'][()].decode('utf-8'))
                for k in ('config', 'log', 'metadata'):
                    for where, s in strings_of(md.get(k), f'hdf5.{k}'):
                        leaks += scan(s, roots, where)
            except Exception as e:
                leaks.append(f'hdf5 metadata unreadable: {e}')
        if config.get('log_path') is None:
            lp = None
        else:
            lp = pathlib.Path(config['log_path'])
        if lp is None:
            pass
        elif lp.exists():
            for i, line in enumerate(lp.read_text().split('\n')):
                leaks += scan(line, roots, f'log file line {i}')
        elif oc != 'missing_query':
            leaks.append('no log file written')
        for m in leaks[:3]:
            violations.append({'key': classify(m, oc),
                               'msg': f'{desc}: {m}'})
        keys.append(desc)
        if sample is None and oc == 'missing_markers':
            sample = {'run': desc, 'error': (o.error or '')[:200],
                      'strings_scanned_from': ['json config/log/metadata',
                                               'hdf5 metadata', 'log file']}
    return {'violations': violations[:40], 'keys': keys,
            'outcomes': sorted(outcomes), 'evaluations': n,
            'sample': sample}


def classify(m, oc):
    if 'no log file' in m:
        return 'log-file-missing'
    return 'absolute-path-leaked'


def outcome_setup(oc, b, in_dir, run_dir):
    """-> (config edit function, fault plan, query path, normalization)"""
    edit = None
    faults = None
    qpath = None
    norm = 'raw'
    if oc == 'missing_query':
        def edit(c):
            c['query_path'] = str(in_dir / 'no_such_query.h5ad')
    elif oc == 'corrupt_query':
        p = in_dir / 'corrupt.h5ad'
        p.write_bytes(b'this is not an hdf5 file')

        def edit(c):
            c['query_path'] = str(p)
    elif oc == 'attrless_query':
        p = scenario.write_query(b, 'raw', 'dense', name='attrless.h5ad')
        with h5py.File(p, 'a') as f:
            for k in list(f['X'].attrs.keys()):
                del f['X'].attrs[k]
        qpath = p
    elif oc == 'stats_no_tree':
        p = in_dir / 'stats_no_tree.h5'
        with h5py.File(b.stats_path, 'r') as src, h5py.File(p, 'w') as dst:
            for k in src.keys():
                if k != 'taxonomy_tree':
                    dst.create_dataset(k, data=src[k][()])

        def edit(c):
            c['precomputed_stats']['path'] = str(p)
    elif oc == 'missing_markers':
        def edit(c):
            c['query_markers']['serialized_lookup'] = str(
                in_dir / 'no_markers.json')
    elif oc == 'markers_in_missing_dir':
        def edit(c):
            c['query_markers']['serialized_lookup'] = str(
                in_dir / 'not_created' / 'markers.json')
    elif oc == 'malformed_markers':
        p = in_dir / 'malformed.json'
        p.write_text('{"None": ["a", ')

        def edit(c):
            c['query_markers']['serialized_lookup'] = str(p)
    elif oc == 'disjoint_markers':
        p = in_dir / 'disjoint.json'
        p.write_text(json.dumps({'None': ['zz1', 'zz2']}))

        def edit(c):
            c['query_markers']['serialized_lookup'] = str(p)
    elif oc == 'unknown_ref_gene':
        p = in_dir / 'unknown.json'
        t = dict(b.marker_table)
        t['None'] = list(t['None']) + ['q_only_0']
        p.write_text(json.dumps(t))

        def edit(c):
            c['query_markers']['serialized_lookup'] = str(p)
    elif oc == 'negative_raw':
        m = np.array(b.raw)
        m[0, 0] = -2.0
        qpath = scenario.write_query(b, 'raw', 'dense', name='neg.h5ad',
                                     matrix=m)
    elif oc == 'bad_normalization':
        norm = 'raw'

        def edit(c):
            c['type_assignment']['normalization'] = 'CPM'
    elif oc == 'leaf_drop_level':
        def edit(c):
            c['drop_level'] = b.model['hierarchy'][-1]
    elif oc == 'csv_missing_dir':
        def edit(c):
            c['csv_result_path'] = str(run_dir / 'not_created' / 'out.csv')
    elif oc.startswith('worker_'):
        faults = {1: (oc.split('_')[1], 'after')}
    return edit, faults, qpath, norm


def post_check(tot):
    bad = [o for o in tot['outcomes'] if o.startswith('UNEXPECTED')]
    out = []
    if len(tot['keys']) < 100:
        out.append({'key': 'vacuous', 'msg': 'too few runs scanned'})
    return out
