"""
C18 - the stages compose: cluster centroids map back to themselves.

Bounded exhaustive exploration of the REAL chain precompute -> reference
markers -> query markers -> run_mapping on generated separable reference
data: every tree shape in scope x cluster sizes x bootstrap factors x seeds x
every rotation (thorough: permutation) of the centroid query's gene order x
query content {all centroids, centroids of one top-level node only, a single
centroid} x chunking/worker settings.  The centroid query is the mean
log2(CPM+1) profile read back from the statistics file the pipeline wrote.
"""
import itertools
import json

import h5py
import numpy as np

from mc import domains, mapcheck, refdata, scenario, trace
from mc.models import mapping as mm

PROPERTY = 'C18'
LEVEL = 'exploration'
RULE = ("every tree shape with <= 3 levels / 2..N leaves x label scheme x "
        "cells per cluster {2,3} (also with one leaf that has no reference "
        "cell); chain run with the project's own stages; "
        "centroid queries {all leaves, leaves under each top-level node, "
        "each single leaf (quick: first and last)} x bootstrap (factor, "
        "iterations) {(1,1),(1,3),(0.5,5),(0.25,7),(0.97,7),(1,256),(0.97,256)} x "
        "result buffer {scratch, result directory} x seeds {VERIF_SEED, +1} x all rotations of the query gene order "
        "(declared log2CPM; one rotation also as raw counts 2^mean-1 per "
        "million plus a gene unknown to the reference carrying the rest of "
        "the 10^6, declared raw) x "
        "(chunk_size, n_processors) {(100,1),(1,2),(2,3)}; precondition "
        "(no other leaf below the node perfectly correlated on the genes "
        "used; own sub-profile not constant) evaluated on the recorded "
        "subsets; then the whole chain is re-built in place (same paths and "
        "names, signatures moved to other clusters) in the same interpreter "
        "and queried again.  distinct_nontrivial = distinct (shape, query, config) "
        "runs in which >= 1 (cell, node) met the precondition")
ASSUMPTIONS = [
    "separable block-structured reference (strictly positive distinct "
    "means on each cluster's signature genes)",
    "precondition includes 'own sub-profile not constant' (DESIGN D-f)",
]
CASE_TIMEOUT = 1200


def bounds(tier):
    return {'max_levels': 3, 'max_leaves': 4 if tier == 'quick' else 5}


def cases(tier, seed):
    b = bounds(tier)
    shapes = domains.shapes_up_to(b['max_levels'], b['max_leaves'],
                                  min_leaves=2)
    for si, (L, n, shape) in enumerate(shapes):
        for cells_per in ((2, 3) if tier == 'thorough' else
                          ((2,) if si % 2 else (3,))):
            yield {'L': L, 'shape': shape, 'scheme': 'BDE'[si % 3],
                   'cells_per': cells_per, 'seed': seed, 'tier': tier}
        if n >= 3 and (si % 3 == 0 or tier == 'thorough'):
            # one leaf of the taxonomy has no reference cell at all (with
            # 3-4 cells in the others: pairs of two-cell clusters have no
            # significant marker, and the emptied leaf must not be the only
            # source of markers)
            yield {'L': L, 'shape': shape, 'scheme': 'BDE'[si % 3],
                   'cells_per': 3, 'seed': seed, 'tier': tier,
                   'empty_leaf': True}


def evaluate(case, scratch):
    import warnings
    warnings.filterwarnings('ignore')
    from mc import common
    L = case['L']
    shape = scenario._as_shape(case['shape'])
    shape_s = domains.shape_str(shape)
    d = scratch.new_dir('c18')
    tmp = scratch.new_dir('tmp')
    violations = []
    keys = []
    n_runs = 0
    sample = None

    def viol(key, msg):
        violations.append({'key': key, 'msg': f'{shape_s} '
                                              f'scheme={case["scheme"]}: '
                                              f'{msg}'})

    n_leaves = len(domains.realize_tree(L, shape, 'A')[1]['leaves'])
    n_genes = max(8, 2 * n_leaves + 2)
    for phase in (0, 1):
        # phase 1: the whole chain is re-built IN PLACE (same paths, same
        # names, the signatures moved to other clusters) and used again in
        # this interpreter
        if phase == 1:
            for pth in (d / 'stats.h5', d / 'refm.h5'):
                pth.unlink()
        ref = refdata.make_reference(
            d / 'ref', L=L, shape=shape, scheme=case['scheme'],
            cells_per=case['cells_per'], n_genes=n_genes, seed=case['seed'],
            n_files=2, profile_shift=phase)
        empty = None
        if case.get('empty_leaf'):
            leaf_lv = ref.hierarchy[-1]
            # not the only leaf of its top-level node: a whole class
            # without reference cells has no markers against the others
            # (nor of any node above it: its siblings' parent would have
            # nothing to tell them apart by)
            if len(ref.hierarchy) >= 2:
                par_lv = ref.hierarchy[-2]
                n_top = len(ref.model['nodes'][ref.hierarchy[0]])
                cand = []
                for leaf in ref.model['leaves']:
                    sib = len(domains.model_leaves_under(
                        ref.model, par_lv,
                        domains.model_ancestors(ref.model, leaf)[par_lv]))
                    # the parent keeps markers of its own (two populated
                    # leaves left), or can fall back on the root's
                    if sib >= 3 or (sib == 2 and n_top >= 2):
                        cand.append(leaf)
            else:
                cand = list(ref.model['leaves'])
            if cand:
                empty = cand[(1 + phase) % len(cand)]
                ref.tree_data[leaf_lv][empty] = []
        # ---- the project's own stages, each feeding the next
        try:
            stats = refdata.run_precompute(ref, d / 'stats.h5', tmp,
                                           n_processors=2, rows_at_a_time=3)
            refm = refdata.run_reference_markers(stats, d / 'refm.h5', tmp,
                                                 n_processors=2)
            lookup = refdata.run_query_markers(
                refm, stats, list(reversed(ref.genes)), tmp, n_processors=2,
                n_per_utility=3)
        except Exception as e:
            import traceback
            viol('stage-rejects-previous-output',
                 f'{type(e).__name__}: {e}\n{traceback.format_exc()[-1200:]}')
            return {'violations': violations}
        finally:
            common.close_leaked_h5()
        marker_path = d / 'query_markers.json'
        with open(marker_path, 'w') as dst:
            json.dump(dict(lookup, metadata={'x': 1}), dst)
        # ---- names consistent across the three files
        with h5py.File(stats, 'r') as src:
            s_genes = json.loads(src['col_names'][()].decode())
            c2r = json.loads(src['cluster_to_row'][()].decode())
            n_cells = src['n_cells'][()]
            sums = src['sum'][()]
            tree_json = json.loads(src['taxonomy_tree'][()].decode())
        with h5py.File(refm, 'r') as src:
            m_genes = json.loads(src['gene_names'][()].decode())
            p2i = json.loads(src['pair_to_idx'][()].decode())
        model = mm.model_from_tree_json(tree_json)
        leaves = model['leaves']
        if s_genes != m_genes or sorted(s_genes) != sorted(ref.genes):
            viol('names-inconsistent', f'genes: stats {s_genes} markers '
                                       f'{m_genes} data {ref.genes}')
        if set(c2r) != set(leaves):
            viol('names-inconsistent', f'clusters: {sorted(c2r)} vs '
                                       f'{sorted(leaves)}')
        leaf_level = model['hierarchy'][-1]
        pair_nodes = set(p2i.get(leaf_level, {}).keys())
        if pair_nodes != set(leaves):
            viol('names-inconsistent', f'marker file pairs name {pair_nodes}')
        for key, gl in lookup.items():
            unknown = set(gl) - set(s_genes)
            if unknown:
                viol('names-inconsistent', f'query markers of {key} not in '
                                           f'the reference: {sorted(unknown)}')
        cons = mm.consulted_parents(model)
        for key, lv, node, anc in cons:
            if key not in lookup:
                viol('names-inconsistent',
                     f'query marker table lacks parent {key}')
        # ---- centroid queries
        centroid = {leaf: sums[c2r[leaf]] / max(1, n_cells[c2r[leaf]])
                    for leaf in leaves}
        if empty is not None and n_cells[c2r[empty]] != 0:
            viol('names-inconsistent',
                 f'{empty} has no cell but n_cells={n_cells[c2r[empty]]}')
        h = model['hierarchy']
        populated = [leaf for leaf in leaves if n_cells[c2r[leaf]] > 0]
        subsets = [('all', list(populated))]
        for top in model['nodes'][h[0]]:
            under = [x for x in domains.model_leaves_under(model, h[0], top)
                     if x in populated]
            if 0 < len(under) < len(populated):
                subsets.append((f'under {top}', under))
        singles = populated if case['tier'] == 'thorough' else \
            [populated[0], populated[-1]]
        for leaf in singles:
            subsets.append((f'only {leaf}', [leaf]))
        boots = [(1.0, 1), (1.0, 3), (0.5, 5), (0.25, 7), (0.97, 7),
                 (1.0, 256), (0.97, 256)]
        pools = [(100, 1), (1, 2), (2, 3)]
        G = len(s_genes)
        rotations = range(G) if case['tier'] == 'thorough' else (0, 1, G // 2)
        if phase == 1:
            subsets = subsets[:2]
            boots = [(1.0, 1), (0.5, 5)]
            rotations = (0, 1)
        stub = scenario.Built()
        stub.dir = d
        stub.model = model
        stub.stats_path = stats
        stub.marker_path = marker_path
        stub._query_cache = {}
        run_idx = 0
        rot_list = list(rotations)
        # the same centroid also as RAW counts: 2^mean - 1 counts per
        # million on the reference genes plus one gene unknown to the
        # reference that carries the rest of the 10^6, declared 'raw'
        variants = [(r, 'log2CPM') for r in rot_list] + \
            [(rot_list[-1], 'raw')]
        for (qname, qleaves), (factor, it) in itertools.product(subsets, boots):
            for ri, (rot, form) in enumerate(variants):
                if it > 100 and ri > 0:
                    continue
                # not the full product: rotate through pools / seeds
                chunk, npr = pools[(run_idx + ri) % len(pools)]
                rng_seed = case['seed'] + ((run_idx + ri) % 2)
                run_idx += 1
                order = [(j + rot) % G for j in range(G)]
                genes = [s_genes[j] for j in order]
                mat = np.array([centroid[leaf][order] for leaf in qleaves])
                if form == 'raw':
                    cpm = np.power(2.0, mat) - 1.0
                    rest = 1.0e6 - cpm.sum(axis=1)
                    if rest.min() < 0.0:
                        continue
                    pos = rot % (G + 1)
                    genes = genes[:pos] + ['zz_unknown_to_reference'] + \
                        genes[pos:]
                    mat = np.insert(cpm, pos, rest, axis=1)
                ids = [f'centroid_of_{leaf}' for leaf in qleaves]
                qpath = d / f'q_{n_runs}.h5ad'
                stub.query_genes = genes
                stub.cell_ids = ids
                stub.raw = mat
                stub.log2cpm = mat
                scenario.write_query(stub, form, 'dense', name=qpath.name,
                                     matrix=mat, genes=genes, ids=ids)
                run_dir = scratch.new_dir('r')
                tdir = run_dir / 'trace'
                trace.install(tdir)
                trace.retarget(tdir)
                try:
                    o = scenario.run_mapping(
                        stub, {'normalization': form, 'factor': factor,
                               'iterations': it, 'chunk_size': chunk,
                               'n_processors': npr, 'rng_seed': rng_seed,
                               'n_runners_up': 2, 'min_markers': 1,
                               'buffer': ('tmp_dir', 'result_dir')[
                                   (run_idx + phase) % 2]},
                        run_dir, query_path=qpath)
                finally:
                    trace.uninstall()
                    common.close_leaked_h5()
                n_runs += 1
                desc = (('rebuilt in place: ' if phase else '') +
                        (f'leaf {empty} without cells: ' if empty else '') +
                        f'query={qname} form={form} factor={factor} '
                        f'iterations={it} '
                        f'rotation={rot} chunk={chunk} workers={npr} '
                        f'seed={rng_seed}')
                if not (o.ok and o.blob and 'results' in o.blob):
                    viol('mapping-rejects-pipeline-output',
                         f'{desc}: {o.error}\n{(o.tb or "")[-1000:]}')
                    qpath.unlink()
                    continue
                met = judge(o, tdir, model, centroid, s_genes, qleaves, ids,
                            lookup, it, factor, desc, viol)
                if met:
                    keys.append(f'{shape_s}|{desc}')
                if sample is None and met:
                    sample = {'shape': shape_s, 'run': desc,
                              'record': o.blob['results'][0]}
                qpath.unlink()
    return {'violations': violations[:40], 'keys': keys,
            'outcomes': [shape_s], 'evaluations': n_runs, 'sample': sample}


def judge(o, tdir, model, centroid, s_genes, qleaves, ids, lookup, iterations,
          factor, desc, viol):
    """-> number of (cell, node) pairs for which the precondition held"""
    h = model['hierarchy']
    tr = trace.read(tdir)
    worker_of = {}
    for dd in tr['dispatch']:
        for c in dd.get('query_cell_names', []):
            worker_of[c] = dd['index']
    groups = {w: trace.group_node_draws(evs)
              for w, evs in tr['workers'].items()}
    gidx = {g: j for j, g in enumerate(s_genes)}
    met = 0
    for rec, leaf, cid in zip(o.blob['results'], qleaves, ids):
        if rec['cell_id'] != cid:
            viol('centroid-misassigned', f'{desc}: record order')
            continue
        anc = domains.model_ancestors(model, leaf)
        parent_key = 'None'
        for li, lv in enumerate(h):
            sibs = model['nodes'][h[0]] if li == 0 else \
                model['children'][h[li - 1]][anc[h[li - 1]]]
            if len(sibs) > 1:
                # which genes were used in each iteration at this node
                subsets = None
                w = worker_of.get(cid)
                visits = [v for v in groups.get(w, [])
                          if ('None' if v[0]['parent'] is None else
                              f"{v[0]['parent'][0]}/{v[0]['parent'][1]}")
                          == parent_key]
                if len(visits) == 1 and len(visits[0][1]) == iterations:
                    node_ev, draws = visits[0]
                    subsets = [[node_ev['query_genes'][i] for i in dd['out']]
                               for dd in draws]
                elif factor == 1.0 and parent_key in lookup:
                    subsets = [list(lookup[parent_key])] * iterations
                if subsets is None:
                    parent_key = f'{lv}/{anc[lv]}'
                    continue
                under = []
                for s in sibs:
                    under += domains.model_leaves_under(model, lv, s)
                ok = True
                for genes in subsets:
                    own = [centroid[leaf][gidx[g]] for g in genes]
                    if len(genes) < 2 or max(own) - min(own) < 1e-9:
                        ok = False
                        break
                    for other in under:
                        if other == leaf:
                            continue
                        oth = [centroid[other][gidx[g]] for g in genes]
                        if mm.pearson(own, oth) > 1.0 - 1e-9:
                            ok = False
                            break
                    if not ok:
                        break
                if ok:
                    met += 1
                    a = rec[lv]
                    where = f'{desc}: centroid of {leaf} at level {lv}'
                    if a['assignment'] != anc[lv]:
                        viol('centroid-misassigned',
                             f'{where}: assigned {a["assignment"]!r} '
                             f'expected {anc[lv]!r}')
                    elif abs(a['bootstrapping_probability'] - 1.0) > 1e-12:
                        viol('centroid-probability',
                             f'{where}: probability '
                             f'{a["bootstrapping_probability"]}')
                    elif abs(a['avg_correlation'] - 1.0) > 1e-9:
                        viol('centroid-correlation',
                             f'{where}: avg_correlation '
                             f'{a["avg_correlation"]}')
            else:
                if rec[lv]['assignment'] != anc[lv]:
                    viol('centroid-misassigned',
                         f'{desc}: centroid of {leaf} level {lv} (single '
                         f'child): {rec[lv]["assignment"]!r}')
            # follow the TRUE path (a wrong assignment was reported above)
            parent_key = f'{lv}/{anc[lv]}'
            if rec[lv]['assignment'] != anc[lv]:
                break
    return met


def post_check(tot):
    if len(tot['keys']) < 100:
        return [{'key': 'vacuous', 'msg': f"{len(tot['keys'])} runs met the "
                                          'precondition'}]
    return []
