"""
C15 - JSON, CSV and HDF5 outputs tell the same story and round-trip.

Bounded exhaustive exploration of run_mapping over output-shaping dimensions
(taxonomy depth, name tables present / partial / absent, names needing CSV
quoting, level names containing 'name'/'label'/'alias', runners-up 0..k,
flatten / drop, single-iteration runs) and, at function level, of
blob_to_csv / blob_to_hdf5 / hdf5_to_blob over a generated blob grammar.
Oracle: the csv module on the CSV file, the library's own reader for the HDF5
round trip, the input taxonomy for the embedded one.
"""
import csv
import io
import json

import h5py

from mc import domains, mapcheck, scenario
from mc.models import mapping as mm

PROPERTY = 'C15'
LEVEL = 'exploration'
RULE = ("every tree shape with <= L levels / N leaves x label scheme {C: "
        "quoting and multi-byte characters, D: same labels on all levels, B} x name tables {absent, "
        "partial with readable level names} x level-name scheme {plain, "
        "containing name/label/alias/assignment} x configurations "
        "{iterations 1 / 3} x {runners-up 0,1,2,10} x cell ids {ASCII, with "
        "multi-byte characters} x {as is, flatten, drop "
        "each level}; CSV parsed with the csv module, HDF5 read back with "
        "hdf5_to_blob, embedded taxonomy compared with the input.  "
        "distinct_nontrivial = distinct (shape, scheme, tables, level "
        "names, config) runs with all three files checked")
ASSUMPTIONS = [
    "extra CSV columns are not judged (the statement constrains the label, "
    "name, alias and confidence columns)",
]
CASE_TIMEOUT = 900

TRICKY_LEVELS = ['class_label', 'subclass_name', 'cluster_alias_level',
                 'assignment_group']


def bounds(tier):
    if tier == 'quick':
        return {'max_levels': 3, 'max_leaves': 4}
    return {'max_levels': 4, 'max_leaves': 5}


def cases(tier, seed):
    b = bounds(tier)
    shapes = domains.shapes_up_to(b['max_levels'], b['max_leaves'])
    for si, (L, n, shape) in enumerate(shapes):
        for scheme in ('C', 'D', 'B'):
            if tier == 'quick' and 'CDB'[si % 3] != scheme and scheme != 'C':
                continue
            for tables in (False, True):
                for tricky in (False, True):
                    if tier == 'quick' and tricky and scheme != 'C':
                        continue
                    yield {'L': L, 'shape': shape, 'scheme': scheme,
                           'tables': tables, 'tricky': tricky, 'seed': seed}


def config_space(L):
    for it in (3, 1):
        for nr in (2, 0, 10, 1):
            reds = [{}] + [{'drop_level': i} for i in range(L - 1)]
            if L > 1:
                reds.append({'flatten': True})
            for red in reds:
                if nr in (10, 1) and red:
                    continue
                cfg = {'iterations': it, 'n_runners_up': nr}
                cfg.update(red)
                yield cfg


def check_csv(csv_text, blob, tree_json, config, cfg, query_ids=None):
    msgs = []
    lines = csv_text.split('\n')
    comments = []
    i = 0
    while i < len(lines) and lines[i].startswith('#'):
        comments.append(lines[i])
        i += 1
    body = '\n'.join(lines[i:])
    h = tree_json['hierarchy']
    import cell_type_mapper
    import pathlib
    meta_name = pathlib.Path(config['extended_result_path']).name
    if not any(c.strip() == f'# metadata = {meta_name}' for c in comments):
        msgs.append(f'no comment line naming the JSON file: {comments}')
    if not any(c.startswith('# taxonomy hierarchy = ')
               and json.loads(c.split('=', 1)[1]) == h for c in comments):
        msgs.append(f'no comment line with the hierarchy: {comments}')
    if not any(f'version: {cell_type_mapper.__version__}' in c
               for c in comments):
        msgs.append(f'no comment line with the software version: {comments}')
    rows = list(csv.DictReader(io.StringIO(body)))
    results = blob['results']
    if query_ids is not None and [r.get('cell_id') for r in rows] != list(
            query_ids):
        msgs.append('CSV rows are not in the query file\'s cell order: '
                    f"{[r.get('cell_id') for r in rows][:12]}... expected "
                    f'{list(query_ids)[:12]}...')
    if [r.get('cell_id') for r in rows] != [r['cell_id'] for r in results]:
        msgs.append(f"CSV cell ids {[r.get('cell_id') for r in rows]} != "
                    f"JSON order")
        return msgs
    hm = tree_json.get('hierarchy_mapper', {})
    nm = tree_json.get('name_mapper', {})
    if cfg['iterations'] == 1:
        ckey, clabel = 'avg_correlation', 'correlation_coefficient'
    else:
        ckey, clabel = ('bootstrapping_probability',
                        'bootstrapping_probability')
    for row, rec in zip(rows, results):
        for li, lv in enumerate(h):
            readable = hm.get(lv, lv)
            a = rec[lv]['assignment']
            exp = {f'{readable}_label': a,
                   f'{readable}_name': nm.get(lv, {}).get(a, {}).get(
                       'name', a)}
            if li == len(h) - 1:
                exp[f'{readable}_alias'] = nm.get(lv, {}).get(a, {}).get(
                    'alias', a)
            exp[f'{readable}_{clabel}'] = '%.4f' % rec[lv][ckey]
            for k, v in exp.items():
                if k not in row:
                    msgs.append(f'CSV lacks column {k!r} '
                                f'(columns {list(row.keys())})')
                elif row[k] != str(v):
                    msgs.append(f"cell {rec['cell_id']} column {k!r}: CSV "
                                f'{row[k]!r} expected {str(v)!r}')
        if len(msgs) > 6:
            break
    return msgs


def check_hdf5(h5_path, blob):
    from cell_type_mapper.utils.output_utils import hdf5_to_blob
    msgs = []
    back = hdf5_to_blob(h5_path)
    res_j = blob['results']
    res_h = back.get('results')
    if res_h is None:
        return ['HDF5 output has no results']
    if [r['cell_id'] for r in res_h] != [r['cell_id'] for r in res_j]:
        return ['HDF5 cell ids differ from JSON']
    h = blob['taxonomy_tree']['hierarchy']
    for rj, rh in zip(res_j, res_h):
        for lv in h:
            a, b_ = rj[lv], rh[lv]
            for k in ('assignment', 'bootstrapping_probability',
                      'avg_correlation', 'aggregate_probability',
                      'directly_assigned'):
                x, y = a.get(k), b_.get(k)
                if hasattr(y, 'item'):
                    y = y.item()
                if x != y:
                    msgs.append(f"cell {rj['cell_id']} {lv}.{k}: JSON {x!r} "
                                f'HDF5 {y!r}')
            for k in ('runner_up_assignment', 'runner_up_probability',
                      'runner_up_correlation'):
                x = a.get(k)
                y = b_.get(k)
                if y is not None:
                    y = [v.item() if hasattr(v, 'item') else v for v in y]
                if (x or []) != (y or []) or (x is None) != (y is None):
                    msgs.append(f"cell {rj['cell_id']} {lv}.{k}: JSON {x!r} "
                                f'HDF5 {y!r}')
        if len(msgs) > 6:
            break
    for k in ('config', 'marker_genes', 'taxonomy_tree'):
        if back.get(k) != blob.get(k):
            msgs.append(f'HDF5 metadata {k!r} differs from JSON')
    return msgs


def check_tree(blob_tree, input_tree):
    msgs = []
    if blob_tree.get('hierarchy') != input_tree['hierarchy']:
        return ['embedded hierarchy differs']
    h = input_tree['hierarchy']
    for li, lv in enumerate(h):
        if set(blob_tree.get(lv, {}).keys()) != set(input_tree[lv].keys()):
            msgs.append(f'embedded taxonomy: nodes of {lv} differ')
            continue
        for node in input_tree[lv]:
            if li == len(h) - 1:
                if list(blob_tree[lv][node]) != []:
                    msgs.append(f'embedded taxonomy keeps cells of {node}')
            elif sorted(blob_tree[lv][node]) != sorted(input_tree[lv][node]):
                msgs.append(f'embedded taxonomy: children of {lv}/{node}')
    for k in ('name_mapper', 'hierarchy_mapper'):
        if blob_tree.get(k) != input_tree.get(k):
            msgs.append(f'embedded taxonomy: {k} differs')
    return msgs


def classify(m, case):
    if case['tricky'] and ('expected' in m or 'lacks column' in m):
        return 'F6:level-name-contains-label-name-alias'
    return None


def evaluate(case, scratch):
    L = case['L']
    spec = {'L': L, 'shape': case['shape'], 'scheme': case['scheme'],
            'n_cells': 4, 'seed': case['seed'], 'marker_mode': 'full',
            'name_mapper': case['tables']}
    if case['tables']:
        # identifiers whose UTF-8 encoding is longer than their character
        # count
        spec['id_prefix'] = 'Z\u00fc\u00df_'
    if case['tricky']:
        spec['level_names'] = TRICKY_LEVELS[:L]
    b = scenario.build(spec, scratch.new_dir('in') / 'in')
    # give the stored tree cells, which the output must drop
    with h5py.File(b.stats_path, 'a') as f:
        tree = json.loads(f['taxonomy_tree'][()].decode())
        leaf_lv = tree['hierarchy'][-1]
        for k, leaf in enumerate(tree[leaf_lv]):
            tree[leaf_lv][leaf] = [f'refcell_{k}_a', f'refcell_{k}_b']
        del f['taxonomy_tree']
        f.create_dataset('taxonomy_tree',
                         data=json.dumps(tree).encode('utf-8'))
    violations = []
    keys = []
    n = 0
    shape_s = domains.shape_str(scenario._as_shape(case['shape']))
    sample = None
    for cfg in config_space(L):
        o = scenario.run_mapping(b, cfg, scratch.new_dir('r'))
        n += 1
        desc = (f'{shape_s} scheme={case["scheme"]} tables={case["tables"]} '
                f'tricky_levels={case["tricky"]} {cfg}')
        if not (o.ok and o.blob and 'results' in o.blob):
            violations.append({'key': 'run-failed',
                               'msg': f'{desc}: {o.error}\n{o.tb}'})
            continue
        config = o.config
        msgs = []
        try:
            csv_text = open(config['csv_result_path']).read()
            msgs += check_csv(csv_text, o.blob, tree, config, o.cfg,
                              query_ids=b.cell_ids)
        except Exception as e:
            msgs.append(f'CSV unreadable: {type(e).__name__}: {e}')
        try:
            msgs += check_hdf5(config['hdf5_result_path'], o.blob)
        except Exception as e:
            msgs.append(f'HDF5 round trip raised {type(e).__name__}: {e}')
        msgs += check_tree(o.blob.get('taxonomy_tree', {}), tree)
        reduced = mm.reduce_model(
            mm.model_from_tree_json(tree), flatten=config['flatten'],
            drop_level=config['drop_level'])
        exp = mm.expected_markers(
            reduced, b.marker_table, b.query_genes, b.ref_genes,
            config['type_assignment']['min_markers'],
            flatten=config['flatten'])
        for f in mm.check_marker_report(o.blob.get('marker_genes'), reduced,
                                        exp, b.ref_genes):
            msgs.append('embedded marker table: ' + f['msg'])
        for m in msgs[:4]:
            violations.append({'key': classify(m, case) or 'outputs-disagree',
                               'msg': f'{desc}: {m}'})
        keys.append(desc)
        if sample is None:
            sample = {'run': desc,
                      'csv_head': csv_text.split('\n')[:5] if msgs == []
                      else None}
    if len(b.model['leaves']) == 3 and case['scheme'] == 'C' \
            and not case['tricky']:
        # many chunks whose buffer-file names sort differently from the rows
        spec100 = dict(spec, n_cells=100)
        b100 = scenario.build(spec100, scratch.new_dir('in100') / 'in')
        for cfg in ({'chunk_size': 5, 'n_processors': 2},
                    {'chunk_size': 1000, 'n_processors': 16}):
            o = scenario.run_mapping(b100, cfg, scratch.new_dir('r'))
            n += 1
            desc = f'{shape_s} 100 cells {cfg}'
            if not (o.ok and o.blob and 'results' in o.blob):
                violations.append({'key': 'run-failed',
                                   'msg': f'{desc}: {o.error}'})
                continue
            csv_text = open(o.config['csv_result_path']).read()
            with h5py.File(b100.stats_path, 'r') as f:
                tree100 = json.loads(f['taxonomy_tree'][()].decode())
            msgs = check_csv(csv_text, o.blob, tree100, o.config, o.cfg,
                             query_ids=b100.cell_ids)
            msgs += check_hdf5(o.config['hdf5_result_path'], o.blob)
            for m in msgs[:3]:
                violations.append({'key': 'outputs-disagree',
                                   'msg': f'{desc}: {m}'})
            keys.append(desc)
    n2, v2 = function_level(case, scratch, b, tree)
    violations += v2
    return {'violations': violations[:40], 'keys': keys,
            'outcomes': [shape_s], 'evaluations': n + n2, 'sample': sample}


def function_level(case, scratch, b, tree):
    """blob grammar through blob_to_hdf5 / hdf5_to_blob directly"""
    from cell_type_mapper.utils.output_utils import (blob_to_hdf5,
                                                     hdf5_to_blob)
    import random
    rnd = random.Random(case['seed'] + 99)
    model = mm.model_from_tree_json(tree)
    h = model['hierarchy']
    violations = []
    n = 0
    d = scratch.new_dir('fl')
    for n_ru in (0, 1, 3):
        results = []
        for ci in range(3):
            leaf = model['leaves'][ci % len(model['leaves'])]
            anc = domains.model_ancestors(model, leaf)
            rec = {'cell_id': f'cell "{ci}", x'}
            for lv in h:
                sibs = [x for x in model['nodes'][lv] if x != anc[lv]]
                k = min(n_ru, len(sibs), ci)    # varying list lengths
                rec[lv] = {
                    'assignment': anc[lv],
                    'bootstrapping_probability': rnd.randint(1, 9) / 9,
                    'avg_correlation': rnd.uniform(-1, 1),
                    'aggregate_probability': rnd.uniform(0, 1),
                    'directly_assigned': True,
                    'runner_up_assignment': sibs[:k],
                    'runner_up_probability': [rnd.randint(1, 9) / 90
                                              for _ in range(k)],
                    'runner_up_correlation': [rnd.uniform(-1, 1)
                                              for _ in range(k)]}
            results.append(rec)
        blob = {'results': results, 'taxonomy_tree': tree,
                'config': {'type_assignment': {'n_runners_up': n_ru}},
                'marker_genes': {'None': ['a', 'b']}, 'log': ['x'],
                'metadata': {'m': 1}}
        p = d / f'fl_{n_ru}.h5'
        n += 1
        try:
            blob_to_hdf5(output_blob=blob, dst_path=p)
            msgs = check_hdf5(p, blob)
        except Exception as e:
            msgs = [f'raised {type(e).__name__}: {e}']
        for m in msgs[:3]:
            violations.append({
                'key': 'hdf5-round-trip',
                'msg': f'function level n_runners_up={n_ru} '
                       f'scheme={case["scheme"]}: {m}'})
    return n, violations


def post_check(tot):
    if len(tot['keys']) < 100:
        return [{'key': 'vacuous', 'msg': 'too few runs checked'}]
    return []
