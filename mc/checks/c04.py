"""
C04 - results depend only on inputs and seed, never on scheduling.

(a) TLA+ model of the shared worker-pool protocol (mc/tla/WorkerPool.tla)
    checked by TLC; EVERY maximal behaviour of the model is replayed against
    the implementation under the controlled scheduler (mc/vproc.py) with a
    conformance assertion at every step (same worker started / polled, same
    answer), and the stage output must equal the FIFO baseline.
(b) direct stateless DFS over the scheduler's choice points (no model
    assumed) for every parallel stage, including the two-pool stages and the
    query-marker stage whose dispatch loop is its own.
(c) worker counts that induce the same chunks give bitwise identical
    mappings.  (d) whole scenarios under several PYTHONHASHSEED values.
(e) a small free-running pass with real processes (sampling, reported as
    such; it can only add a violation).
"""
import json
import os
import pathlib
import subprocess
import sys

from mc import explore, refdata, stages, tlc, vproc

PROPERTY = 'C04'
LEVEL = 'model_checking'
RULE = ("TLC explores WorkerPool.tla for each (workers, n_processors, "
        "idiom) of the single-pool stages; all maximal behaviours replayed "
        "on the implementation.  Direct DFS: every completion order and "
        "observation timing of every stage configuration in the catalogue "
        "(<= 4 workers quick, <= 5 thorough).  distinct_nontrivial = "
        "distinct (stage, observed event sequence) executions whose "
        "completion order differs from dispatch order")
ASSUMPTIONS = [
    "workers run one at a time under the scheduler; worker-internal "
    "interleavings are not explored (workers share only a manager list / "
    "dict and disjoint files)",
    "all-'not yet' polling sweeps are pruned (they leave the parent's state "
    "unchanged)",
    "hash seeds: 5 values, not exhaustive; free-running pass is sampling",
]
CASE_TIMEOUT = 1500
EXHAUSTIVE = True

HASH_SEEDS = [0, 1, 2, 3]


def bounds(tier):
    return {'stages': sorted(stages.stage_catalog(tier).keys()),
            'hash_seeds': HASH_SEEDS + ['VERIF_SEED+17'],
            'free_running_runs': 6}


def cases(tier, seed):
    cat = stages.stage_catalog(tier)
    for name in sorted(cat):
        yield {'kind': 'dfs', 'stage': name, 'tier': tier, 'seed': seed}
        if cat[name].single_pool:
            yield {'kind': 'tlc', 'stage': name, 'tier': tier, 'seed': seed}
    yield {'kind': 'workers', 'seed': seed}
    for hs in HASH_SEEDS + [seed + 17]:
        pass
    yield {'kind': 'hashseed', 'seed': seed,
           'hash_seeds': HASH_SEEDS + [(seed + 17) % 4294967295]}
    yield {'kind': 'free', 'seed': seed}


def _canon(d):
    return refdata.canon(d)


def _order(events):
    return [e['w'] for e in events if e['ev'] == 'poll' and e['finished']]


def evaluate(case, scratch):
    kind = case['kind']
    if kind == 'dfs':
        return eval_dfs(case, scratch)
    if kind == 'tlc':
        return eval_tlc(case, scratch)
    if kind == 'workers':
        return eval_workers(case, scratch)
    if kind == 'hashseed':
        return eval_hashseed(case, scratch)
    return eval_free(case, scratch)


def _baseline(stage):
    obs, err, sched = vproc.run_under(lambda: stage.run('base'), script=[])
    return obs, err, sched


def eval_dfs(case, scratch):
    stage = stages.stage_catalog(case['tier'])[case['stage']]
    stage.prepare(scratch, case['seed'])
    violations = []
    keys = []
    outcomes = set()
    obs0, err0, sched0 = _baseline(stage)
    if err0 or obs0 is None or obs0.get('error'):
        return {'violations': [{
            'key': 'baseline-failed',
            'msg': f"{stage.name}: {err0 or obs0.get('error')}\n"
                   f"{(obs0 or {}).get('tb')}"}]}
    base = _canon(obs0['digest'])
    # determinism self-check: the same schedule twice
    obs1, _, sched1 = _baseline(stage)
    if _canon(obs1['digest']) != base or sched1.events != sched0.events:
        return {'violations': [{
            'key': 'harness-nondeterminism',
            'msg': f'{stage.name}: FIFO schedule run twice differs'}]}

    seqs = set()

    def run(prefix):
        obs, err, sched = vproc.run_under(lambda: stage.run('x'),
                                          script=prefix)
        return (obs, err, sched), sched.options

    def on_exec(choices, res):
        obs, err, sched = res
        order = _order(sched.events)
        desc = f'{stage.name} schedule={choices} completion order={order}'
        if sched.blocked:
            violations.append({'key': 'worker-blocked',
                               'msg': f'{desc}: workers {sched.blocked} '
                                      'never finished'})
        if err or obs is None or obs.get('error'):
            violations.append({
                'key': 'schedule-raises',
                'msg': f"{desc}: {err or obs.get('error')}\n"
                       f"{(obs or {}).get('tb')}"})
            return
        if _canon(obs['digest']) != base:
            violations.append({
                'key': 'result-depends-on-schedule',
                'msg': f'{desc}: output differs from the FIFO baseline\n'
                       + _first_diff(obs0['digest'], obs['digest'])})
        if obs.get('scratch_left'):
            outcomes.add('scratch:' + str(obs['scratch_left'])[:100])
        ev_key = json.dumps([(e['ev'][0], e['w'], e.get('finished'))
                             for e in sched.events])
        seqs.add(ev_key)
        if order != sorted(order):
            keys.append(f'{stage.name}|{ev_key}')
        outcomes.add(str(order))

    stats = explore.explore(run, None, on_exec, max_executions=5000)
    return {'violations': violations[:30], 'keys': keys,
            'outcomes': sorted(outcomes)[:200],
            'evaluations': stats['executions'],
            'states': 0, 'transitions': 0,
            'extra': {'dfs_schedules': stats['executions'],
                      'dfs_choice_points': stats['choice_points'],
                      'dfs_capped': int(stats['capped']),
                      'dfs_distinct_completion_orders': len(outcomes)},
            'sample': {'kind': 'dfs', 'stage': stage.name,
                       'workers': len(sched0.procs),
                       'schedules': stats['executions'],
                       'completion_orders': sorted(outcomes)[:8]}}


def _first_diff(a, b, path=''):
    if type(a) is not type(b):
        return f'{path}: {str(a)[:200]} != {str(b)[:200]}'
    if isinstance(a, dict):
        for k in sorted(set(a) | set(b), key=str):
            if k not in a or k not in b:
                return f'{path}/{k}: present in only one'
            d = _first_diff(a[k], b[k], f'{path}/{k}')
            if d:
                return d
        return ''
    if isinstance(a, list):
        if len(a) != len(b):
            return f'{path}: length {len(a)} != {len(b)}'
        for i, (x, y) in enumerate(zip(a, b)):
            d = _first_diff(x, y, f'{path}[{i}]')
            if d:
                return d
        return ''
    return '' if a == b else f'{path}: {str(a)[:200]} != {str(b)[:200]}'


def eval_tlc(case, scratch):
    stage = stages.stage_catalog(case['tier'])[case['stage']]
    stage.prepare(scratch, case['seed'])
    obs0, err0, sched0 = _baseline(stage)
    if err0 or obs0 is None or obs0.get('error'):
        return {'violations': [{
            'key': 'baseline-failed',
            'msg': f"{stage.name}: {err0 or obs0.get('error')}"}]}
    base = _canon(obs0['digest'])
    n_workers = len(sched0.procs)
    try:
        model = tlc.run_tlc(n_workers, stage.n_proc, stage.idiom == 'list',
                            work_root=str(scratch.base))
    except tlc.TlcError as e:
        return {'violations': [{'key': 'tlc-model-error',
                                'msg': f'{stage.name}: {e}'}]}
    paths = tlc.maximal_paths(model['graph'])
    violations = []
    keys = []
    notes = []
    replayed = 0
    diverged = 0
    for path in paths:
        events, polls, final = tlc.path_to_script(path)
        expect = list(events)
        pos = [0]
        mismatch = []

        def observer(ev, expect=expect, pos=pos, mismatch=mismatch):
            i = pos[0]
            pos[0] += 1
            if i >= len(expect):
                mismatch.append(f'extra implementation event {ev}')
                return
            m = expect[i]
            if ev['ev'] != m['ev'] or ev['w'] != m['w'] or (
                    ev['ev'] == 'poll'
                    and bool(ev['finished']) != bool(m['finished'])):
                mismatch.append(f'step {i}: model {m} implementation {ev}')
        try:
            obs, err, sched = vproc.run_under(
                lambda: stage.run('t'), forced_script=polls,
                observer=observer)
        except vproc.ScheduleDivergence as e:
            diverged += 1
            mismatch.append(str(e))
            obs, err = None, 'diverged'
        desc = (f'{stage.name} model trace {[(w, int(f)) for w, f in polls]}'
                f' final={final}')
        if mismatch or pos[0] != len(expect):
            # The pool no longer follows the modelled protocol (e.g. a
            # refactored polling loop).  That is not a violation of the
            # property: the trace is counted as diverged, reported in the
            # evidence, and the model-free DFS remains the deciding step.
            diverged += 1 if not mismatch else 0
            notes.append(f'{desc}: {mismatch[:2]} (implementation produced '
                         f'{pos[0]} of {len(expect)} model events)')
            continue
        replayed += 1
        if final == 'done':
            if err or obs.get('error'):
                violations.append({'key': 'schedule-raises',
                                   'msg': f"{desc}: {err or obs['error']}"})
            elif _canon(obs['digest']) != base:
                violations.append({
                    'key': 'result-depends-on-schedule',
                    'msg': f'{desc}: output differs from the FIFO baseline\n'
                           + _first_diff(obs0['digest'], obs['digest'])})
        order = [w for w, f in polls if f]
        if order != sorted(order):
            keys.append(f'{stage.name}|tlc|{polls}')
    return {'violations': violations[:30], 'keys': keys,
            'outcomes': [f'{stage.name}:{len(paths)}'],
            'evaluations': len(paths),
            'states': model['distinct_states'],
            'transitions': model['transitions'],
            'traces': replayed,
            'extra': {'tlc_models': 1, 'tlc_paths': len(paths),
                      'tlc_diverged': diverged,
                      'tlc_divergence_example': (notes[0][:400] if notes
                                                 else '')},
            'sample': {'kind': 'tlc', 'stage': stage.name,
                       'constants': {'NChunks': n_workers,
                                     'NProc': stage.n_proc,
                                     'ListIdiom': stage.idiom == 'list'},
                       'states': model['distinct_states'],
                       'maximal_behaviours': len(paths),
                       'example_trace': [(w, int(f)) for w, f in
                                         tlc.path_to_script(paths[-1])[1]]}}


def eval_workers(case, scratch):
    """worker counts that induce the same chunks: bitwise identical"""
    from mc import mapcheck, scenario
    violations = []
    keys = []
    n = 0
    for n_cells, chunk, procs in ((6, 2, (1, 2, 3)), (4, 1, (1, 2, 4)),
                                  (6, 3, (1, 2))):
        spec = {'L': 2, 'shape': (((), ()), ((),)), 'scheme': 'B',
                'n_cells': n_cells, 'seed': case['seed'],
                'marker_mode': 'full'}
        b = scenario.build(spec, scratch.new_dir('in') / 'in')
        base = None
        for npr in procs:
            for seam in ('cli', 'direct'):
                cfg = {'chunk_size': chunk, 'n_processors': npr,
                       'factor': 0.5, 'iterations': 3}
                if seam == 'cli':
                    o = scenario.run_mapping(b, cfg, scratch.new_dir('r'))
                else:
                    o = mapcheck.run_direct(b, cfg, scratch.new_dir('r'))
                    from mc import common
                    common.close_leaked_h5()
                n += 1
                if not (o.ok and o.blob and 'results' in o.blob):
                    violations.append({'key': 'run-failed',
                                       'msg': f'{cfg} {seam}: {o.error}'})
                    continue
                if base is None:
                    base = o.blob['results']
                    continue
                d = mapcheck.compare_results(
                    base, o.blob['results'], b.model['hierarchy'], tol=0.0)
                for m in d[:2]:
                    violations.append({
                        'key': 'worker-count-changes-result',
                        'msg': f'{n_cells} cells chunk {chunk}: '
                               f'n_processors={npr} ({seam}) vs '
                               f'{procs[0]}: {m}'})
                keys.append(f'workers|{n_cells}|{chunk}|{npr}|{seam}')
    return {'violations': violations, 'keys': keys, 'evaluations': n,
            'outcomes': ['workers'],
            'sample': {'kind': 'same chunks, different worker counts',
                       'runs': n}}


def eval_hashseed(case, scratch):
    violations = []
    digests = {}
    probe = {}
    ties = None
    for hs in case['hash_seeds']:
        env = dict(os.environ)
        env['PYTHONHASHSEED'] = str(hs)
        env['VERIF_SEED'] = str(case['seed'])
        p = subprocess.run(
            [sys.executable, '-W', 'ignore', '-m', 'mc.hashseed_worker',
             str(scratch.new_dir(f'hs{hs}')), str(case['seed'])],
            capture_output=True, text=True, env=env, timeout=900,
            cwd=str(pathlib.Path(__file__).resolve().parent.parent.parent))
        last = [ln for ln in p.stdout.split('\n') if ln.startswith('{')]
        if p.returncode != 0 or not last:
            violations.append({'key': 'hashseed-run-failed',
                               'msg': f'PYTHONHASHSEED={hs}: rc='
                                      f'{p.returncode}\n{p.stderr[-1500:]}'})
            continue
        out = json.loads(last[-1])
        probe[hs] = out.pop('probe')
        ties = out.pop('ties', None)
        digests[hs] = out
    seeds = sorted(digests, key=str)
    for hs in seeds[1:]:
        for stage in digests[seeds[0]]:
            if digests[hs].get(stage) != digests[seeds[0]][stage]:
                violations.append({
                    'key': 'result-depends-on-hash-seed',
                    'msg': f'stage {stage}: PYTHONHASHSEED={hs} differs '
                           f'from {seeds[0]}'})
    orders = len(set(probe.values()))
    return {'violations': violations,
            'keys': [f'hashseed|{hs}' for hs in seeds[1:]],
            'evaluations': len(case['hash_seeds']),
            'outcomes': [f'probe-orders:{orders}'],
            'extra': {'hash_seed_runs': len(seeds),
                      'hash_seed_vote_ties_above_leaf_level': ties,
                      'hash_seed_distinct_set_orders': orders},
            'sample': {'kind': 'hash-seed sweep', 'seeds': seeds,
                       'distinct iteration orders of a 4-string probe set':
                       orders}}


def eval_free(case, scratch):
    """sampling pass with real, free-running processes (not exhaustive)"""
    import multiprocessing
    import random
    import time
    orig = multiprocessing.Process
    rnd = random.Random(case['seed'])

    class Jitter(orig):
        def run(self):
            time.sleep(self._verif_delay)
            super().run()

        def start(self):
            self._verif_delay = rnd.uniform(0, 0.02)
            super().start()

    violations = []
    n = 0
    for name in ('mapping_cli_4x3', 'mapping_direct_4x3', 'qmarkers_3',
                 'refmarkers_2'):
        stage = stages.stage_catalog('quick')[name]
        stage.prepare(scratch, case['seed'])
        base = None
        for i in range(6 if 'mapping' in name else 3):
            multiprocessing.Process = Jitter
            try:
                obs = stage.run('f')
            finally:
                multiprocessing.Process = orig
            n += 1
            if obs.get('error'):
                violations.append({'key': 'free-run-failed',
                                   'msg': f"{name}: {obs['error']}"})
                continue
            c = _canon(obs['digest'])
            if base is None:
                base = c
            elif c != base:
                violations.append({
                    'key': 'result-depends-on-schedule',
                    'msg': f'{name}: free-running run {i} differs from '
                           'run 0 (sampling pass)'})
    return {'violations': violations, 'keys': [], 'evaluations': n,
            'outcomes': ['free'],
            'extra': {'free_running_runs_sampling': n},
            'sample': {'kind': 'free-running sampling pass', 'runs': n}}


def post_check(tot):
    ex = tot['extra']
    out = []
    if ex.get('dfs_schedules', 0) < 200:
        out.append({'key': 'vacuous', 'msg': f'few schedules: {ex}'})
    if tot['traces'] < 50 and not ex.get('tlc_diverged'):
        out.append({'key': 'vacuous',
                    'msg': f"only {tot['traces']} model traces replayed"})
    return out
