"""
C02 - assignments are the plurality of bootstrapped nearest-centroid votes.

Two layers (DESIGN.md section 4):

* core: election.run_type_assignment driven by a *scripted* generator.  Every
  call of rng.choice is a choice point of the explorer (mc.explore), which
  enumerates every sequence of marker subsets reachable within the deviation
  bound (complete enumeration where stated).  3 ms per execution.
* pipeline: run_mapping under the harness-side recorder (mc.trace); the
  oracle reads only the files and the recorded draws.

Both are judged by the same reference model (mc.models.mapping.check_votes):
explicit Pearson correlation on name-joined vectors, admissible argmax sets,
vote intervals under ties.
"""
import itertools
import json
import math

import numpy as np

from mc import domains, explore, mapcheck, scenario, trace
from mc.models import mapping as mm

PROPERTY = 'C02'
LEVEL = 'exploration'
RULE = ("core: per scenario (tree shape x marker layout x factor x "
        "iterations) every sequence of bootstrap subsets within the "
        "deviation bound of the all-default sequence (choice 0 = "
        "lexicographically first subset), each execution of the real "
        "run_type_assignment compared with the reference vote model; "
        "pipeline: run_mapping over configurations within 1 deviation of the "
        "default, all query gene-order permutations of <= 4 genes, draws "
        "taken from the recorder.  distinct_nontrivial = distinct (scenario, "
        "choice vector) executions in which the model saw at least one node "
        "with a real choice")
ASSUMPTIONS = [
    "numeric values come from the generator's alphabets; structure (subset "
    "sequences, gene orders, chunkings) is exhaustive within the bound",
    "ties within 1e-9 are judged with admissible sets (DESIGN D-c); at exact "
    ".5 both roundings of factor*n are admitted (D-d)",
]
CASE_TIMEOUT = 3600


def bounds(tier):
    if tier == 'quick':
        return {'core_shapes': (3, 4), 'core_bound': 2,
                'core_iterations': [1, 2, 3], 'core_max_exec': 4000,
                'pipe_shapes': (3, 4), 'perm_genes': 4}
    return {'core_shapes': (3, 5), 'core_bound': 3,
            'core_iterations': [1, 2, 3], 'core_max_exec': 6000,
            'pipe_shapes': (4, 5), 'perm_genes': 5}


def cases(tier, seed):
    b = bounds(tier)
    # ---- core
    Lm, Nm = b['core_shapes']
    for L, n, shape in domains.shapes_up_to(Lm, Nm, min_leaves=2):
        for it in b['core_iterations']:
            for factor in (0.6, 0.34, 0.75):
                if tier == 'quick' and (it, factor) not in (
                        (1, 0.6), (2, 0.34), (3, 0.6), (2, 0.75)):
                    continue
                yield {'kind': 'core', 'L': L, 'shape': shape,
                       'scheme': 'BD'[it % 2], 'seed': seed,
                       'iterations': it,
                       'factor': factor, 'bound': b['core_bound'],
                       'complete': (tier == 'thorough' and it <= 2
                                    and n <= 3),
                       'max_exec': b['core_max_exec']}
    # ---- pipeline
    Lm, Nm = b['pipe_shapes']
    for L, n, shape in domains.shapes_up_to(Lm, Nm, min_leaves=2):
        yield {'kind': 'pipe', 'L': L, 'shape': shape,
               'scheme': 'BD'[(L + n) % 2], 'seed': seed, 'tier': tier}
    # ---- successive runs in one interpreter, inputs rewritten in place
    for L, n, shape in domains.shapes_up_to(2, 3, min_leaves=2):
        yield {'kind': 'rewrite', 'L': L, 'shape': shape, 'scheme': 'B',
               'seed': seed}
    # ---- gene order permutations (pipeline)
    for L, n, shape in [(2, 3, domains.tree_shapes(2, 3)[1]),
                        (1, 3, domains.tree_shapes(1, 3)[0])]:
        yield {'kind': 'perm', 'L': L, 'shape': shape, 'scheme': 'A',
               'seed': seed, 'n_genes': b['perm_genes']}


# ------------------------------------------------------------------ core

def nth_combination(n, k, index):
    """index-th k-subset of range(n) in lexicographic order"""
    out = []
    x = 0
    for slot in range(k):
        while True:
            c = math.comb(n - x - 1, k - slot - 1)
            if index < c:
                out.append(x)
                x += 1
                break
            index -= c
            x += 1
    return out


class UnscriptedRngUse(Exception):
    pass


class ScriptedRng(object):
    """the environment: every draw is answered by the explorer"""

    def __init__(self, script, events):
        self.script = list(script)
        self.k = 0
        self.options = []
        self.events = events

    def choice(self, a, size=None, replace=True, p=None, axis=0,
               shuffle=True):
        arr = np.asarray(a)
        if arr.ndim == 0:
            arr = np.arange(int(arr))
        n = len(arr)
        if size is None or p is not None:
            raise UnscriptedRngUse(f'choice(size={size}, p={p})')
        size = int(size)
        n_opt = math.comb(n, min(size, n))
        idx = self.script[self.k] if self.k < len(self.script) else 0
        if idx >= n_opt:
            raise explore.ReplayDivergence(
                f'draw {self.k}: script says {idx}, only {n_opt} subsets')
        self.k += 1
        self.options.append(n_opt)
        subset = nth_combination(n, min(size, n), idx)
        subset = subset[::-1]       # deliberately not ascending
        self.events.append({
            'ev': 'choice', 'n': n,
            'a_is_arange': bool(np.array_equal(arr, np.arange(n))),
            'size': size, 'replace': bool(replace),
            'out': [int(x) for x in subset]})
        return arr[subset]

    def __getattr__(self, name):
        raise UnscriptedRngUse(f'rng.{name}')


def core_setup(case, scratch):
    """build the scenario once; returns the pieces every execution reuses"""
    import h5py
    from cell_type_mapper.taxonomy.taxonomy_tree import TaxonomyTree
    from cell_type_mapper.type_assignment.marker_cache_v2 import (
        create_marker_cache_from_specified_markers)
    from cell_type_mapper.type_assignment.matching import get_leaf_means
    from cell_type_mapper.cell_by_gene.cell_by_gene import CellByGeneMatrix
    spec = {'L': case['L'], 'shape': case['shape'], 'scheme': case['scheme'],
            'n_cells': 3, 'seed': case['seed'], 'marker_mode': 'full',
            'n_ref_genes': 6}
    d = scratch.new_dir('core')
    b = scenario.build(spec, d / 'in')
    # few markers per node keep the subset space small: 5 per parent
    table = {}
    in_both = [g for g in b.ref_genes if g in set(b.query_genes)]
    for pi, key in enumerate(sorted(b.marker_table.keys())):
        table[key] = [in_both[(pi + j) % len(in_both)] for j in range(5)]
    b.marker_table = table
    with open(b.marker_path, 'w') as dst:
        json.dump(table, dst)
    qpath = scenario.write_query(b, 'log2CPM', 'dense')
    with h5py.File(b.stats_path, 'r') as src:
        tree = TaxonomyTree.from_str(src['taxonomy_tree'][()].decode())
    cache = d / 'cache.h5'
    create_marker_cache_from_specified_markers(
        marker_lookup=table, reference_gene_names=b.ref_genes,
        query_gene_names=b.query_genes, output_cache_path=cache,
        taxonomy_tree=tree, min_markers=1)
    leaf_means = get_leaf_means(tree, b.stats_path,
                                for_marker_selection=False)
    inp = mm.read_inputs(b.stats_path, b.marker_path, qpath)
    exp = mm.expected_markers(inp.model, inp.table, inp.query_genes,
                              inp.ref_genes, 1)
    cell_vectors = {
        cid: {g: float(inp.query_x[i, j])
              for j, g in enumerate(inp.query_genes)}
        for i, cid in enumerate(inp.cell_ids)}
    lookup = {lv: case['factor'] for lv in tree.hierarchy[:-1]}
    lookup['None'] = case['factor']

    def make_query():
        return CellByGeneMatrix(
            data=np.array(b.log2cpm), gene_identifiers=list(b.query_genes),
            normalization='log2CPM')

    return dict(b=b, tree=tree, cache=cache, leaf_means=leaf_means, inp=inp,
                exp=exp, cell_vectors=cell_vectors, lookup=lookup,
                make_query=make_query)


def core_execute(ctx, case, prefix):
    """one execution of the real code under the scripted environment"""
    import cell_type_mapper.type_assignment.election as election
    events = []
    rng = ScriptedRng(prefix, events)
    orig = election.assemble_query_data

    def assemble(*args, **kwargs):
        out = orig(*args, **kwargs)
        parent = kwargs.get('parent_node')
        events.append({
            'ev': 'node',
            'parent': None if parent is None else list(parent),
            'query_genes': list(out['query_data'].gene_identifiers),
            'reference_genes': list(out['reference_data'].gene_identifiers),
            'reference_leaves': list(out['reference_data'].cell_identifiers),
            'reference_types': list(out['reference_types'])})
        return out

    election.assemble_query_data = assemble
    err = None
    result = None
    try:
        result = election.run_type_assignment(
            full_query_gene_data=ctx['make_query'](),
            leaf_node_matrix=ctx['leaf_means'],
            marker_gene_cache_path=ctx['cache'],
            taxonomy_tree=ctx['tree'],
            bootstrap_factor_lookup=ctx['lookup'],
            bootstrap_iteration=case['iterations'],
            rng=rng,
            n_assignments=3)
    except explore.ReplayDivergence:
        raise
    except Exception as e:
        err = f'{type(e).__name__}: {e}'
    finally:
        election.assemble_query_data = orig
    if result is not None:
        result = mapcheck._plain(result)
        for cid, r in zip(ctx['inp'].cell_ids, result):
            r['cell_id'] = cid
    return {'result': result, 'error': err, 'events': events}, rng.options


def core_judge(ctx, case, obs):
    findings = []
    if obs['error'] is not None:
        return [{'prop': 'C02', 'key': 'core-raised', 'msg': obs['error']}], {}
    inp = ctx['inp']
    tr = {'dispatch': [{'index': 0,
                        'query_cell_names': list(inp.cell_ids)}],
          'workers': {0: obs['events']}}
    cfg = dict(scenario.DEFAULT_CFG, iterations=case['iterations'],
               factor=case['factor'])
    binding = mapcheck.TraceBinding(tr, inp.cell_ids, cfg, inp.model,
                                    inp.model['hierarchy'])
    f2, st = mm.check_votes(
        obs['result'], ctx['cell_vectors'], inp.leaf_mean, inp.ref_genes,
        inp.model, ctx['exp']['markers'], case['iterations'], 2,
        binding.subsets_for)
    findings += f2 + binding.findings
    if binding.incomplete:
        findings.append({'prop': 'C02', 'key': 'core-trace-incomplete',
                         'msg': 'scripted draws could not be bound to nodes'})
    findings += [f for f in mm.check_confidence(
        obs['result'], inp.model, inp.model, case['iterations'], 2)
        if f['key'] in ('prob-not-votes', 'runner-up-prob', 'prob-sum')]
    return findings, st


def evaluate_core(case, scratch):
    ctx = core_setup(case, scratch)
    violations = []
    keys = []
    outcomes = set()
    agg = {'nodes_checked': 0, 'nodes_ambiguous': 0, 'split_votes': 0}
    label = (f"core shape={domains.shape_str(scenario._as_shape(case['shape']))}"
             f" it={case['iterations']} f={case['factor']}")

    # determinism self-check: the same choice list twice
    o1, opt1 = core_execute(ctx, case, [])
    o2, opt2 = core_execute(ctx, case, [])
    if json.dumps(o1['result'], sort_keys=True) != \
            json.dumps(o2['result'], sort_keys=True) or opt1 != opt2:
        return {'violations': [{
            'key': 'harness-nondeterminism',
            'msg': f'{label}: two runs of the empty script differ'}]}

    def run(prefix):
        return core_execute(ctx, case, prefix)

    def on_execution(choices, obs):
        f, st = core_judge(ctx, case, obs)
        for k in agg:
            agg[k] += st.get(k, 0)
        for x in f:
            if x['prop'] != 'C02':
                continue
            violations.append({
                'key': x['key'],
                'msg': f"{x['key']}: {x['msg']}\n{label} choices={choices}"})
        if st.get('nodes_checked', 0) > 0:
            keys.append(f'{label}|{choices}')
        if obs['result'] is not None:
            outcomes.add(mapcheck.result_signature(obs['result']))

    bound = None if case['complete'] else case['bound']
    stats = explore.explore(run, bound, on_execution,
                            max_executions=case['max_exec'])
    return {'violations': violations[:50], 'keys': keys,
            'outcomes': sorted(outcomes)[:300],
            'evaluations': stats['executions'],
            'extra': {'core_executions': stats['executions'],
                      'core_choice_points': stats['choice_points'],
                      'core_capped_scenarios': int(stats['capped']),
                      'core_nodes_checked': agg['nodes_checked'],
                      'core_nodes_with_ties': agg['nodes_ambiguous'],
                      'core_split_votes': agg['split_votes']},
            'sample': {'scenario': label, 'executions': stats['executions'],
                       'deviation_bound': bound,
                       'max_choice_points': stats['max_points'],
                       'first_result': (o1['result'] or [None])[0]}}


# -------------------------------------------------------------- pipeline

def pipe_space(L, n_cells, tier):
    alph = {
        'factor': [1.0, 0.34, 1e-3],
        'iterations': [1, 2, 7, 256],
        'factor_lookup': [True],
        'normalization': ['log2CPM'],
        'encoding': ['csr', 'csc'],
        'chunk_size': [1, n_cells],
        'n_processors': [1, 3],
        'n_runners_up': [0, 10],
        'min_markers': [2, 10],
        'flatten': [True],
        'drop_level': list(range(L - 1)),
        'marker_mode': ['fallback'],
        'query_genes': ['subset'],
        'flat_cell': [True],
    }
    default = dict(scenario.DEFAULT_CFG, marker_mode='full',
                   query_genes='superset', flat_cell=False)
    d = 1 if tier == 'quick' else 2
    for cfg, dev in domains.deviations(default, alph, d):
        yield cfg, dev


def evaluate_pipe(case, scratch):
    L = case['L']
    violations = []
    keys = []
    outcomes = set()
    agg = {'nodes_checked': 0, 'nodes_ambiguous': 0, 'split_votes': 0,
           'trace_incomplete': 0, 'nodes_skipped': 0}
    built = {}
    n_runs = 0
    sample = None
    n_cells = 5
    shape_s = domains.shape_str(scenario._as_shape(case['shape']))
    for cfg, dev in pipe_space(L, n_cells, case['tier']):
        cfg = dict(cfg)
        mmode = cfg.pop('marker_mode')
        qg = cfg.pop('query_genes')
        flat = cfg.pop('flat_cell')
        if (mmode, qg, flat) not in built:
            spec = {'L': L, 'shape': case['shape'], 'scheme': case['scheme'],
                    'n_cells': n_cells, 'seed': case['seed'],
                    'marker_mode': mmode, 'query_genes': qg,
                    'flat_cell': flat}
            built[(mmode, qg, flat)] = scenario.build(
                spec, scratch.new_dir('in') / 'in')
        res = mapcheck.run_and_judge(None, cfg, scratch,
                                     want=('C02',),
                                     built=built[(mmode, qg, flat)])
        n_runs += 1
        label = {k: cfg[k] for k in dev if k in cfg}
        label.update({'marker_mode': mmode, 'query_genes': qg,
                      'flat_cell': flat})
        for k in agg:
            agg[k] += res['stats'].get(k, 0)
        for f in res['findings']:
            if f['prop'] != 'C02':
                continue
            violations.append({
                'key': f['key'],
                'msg': f"{f['key']}: {f['msg']}\npipeline shape={shape_s} "
                       f"deviations={label}"})
        o = res['outcome']
        if o.ok and res['stats'].get('nodes_checked', 0) > 0:
            keys.append(f'pipe {shape_s} {sorted(label.items(), key=str)}')
            outcomes.add(mapcheck.result_signature(o.blob['results']))
            if sample is None:
                sample = {'scenario': f'pipeline shape={shape_s}',
                          'config': label, 'stats': res['stats'],
                          'first_record': o.blob['results'][0]}
    return {'violations': violations[:50], 'keys': keys,
            'outcomes': sorted(outcomes)[:300], 'evaluations': n_runs,
            'extra': {'pipe_runs': n_runs,
                      'pipe_nodes_checked': agg['nodes_checked'],
                      'pipe_nodes_with_ties': agg['nodes_ambiguous'],
                      'pipe_split_votes': agg['split_votes'],
                      'pipe_nodes_unbound': agg['trace_incomplete']},
            'sample': sample}


def evaluate_perm(case, scratch):
    """every permutation of the query gene columns (with their names)"""
    L = case['L']
    n_genes = case['n_genes']
    spec = {'L': L, 'shape': case['shape'], 'scheme': case['scheme'],
            'n_cells': 3, 'seed': case['seed'], 'marker_mode': 'full',
            'n_ref_genes': n_genes, 'query_genes': 'perm'}
    b = scenario.build(spec, scratch.new_dir('in') / 'in')
    violations = []
    keys = []
    outcomes = set()
    n_runs = 0
    base_genes = list(b.query_genes)
    checked = 0
    for perm in itertools.permutations(range(len(base_genes))):
        genes = [base_genes[i] for i in perm]
        for norm in ('raw', 'log2CPM'):
            if norm == 'log2CPM' and perm[0] % 2:
                continue
            mat = (b.raw if norm == 'raw' else b.log2cpm)[:, list(perm)]
            qpath = scenario.write_query(
                b, norm, 'dense', name=f'q_{n_runs}.h5ad', matrix=mat,
                genes=genes)
            run_dir = scratch.new_dir('r')
            tdir = run_dir / 'trace'
            trace.install(tdir)
            trace.retarget(tdir)
            try:
                o = scenario.run_mapping(
                    b, {'normalization': norm, 'factor': 0.5,
                        'iterations': 3}, run_dir, query_path=qpath)
            finally:
                trace.uninstall()
            res = mapcheck.judge_mapping(b, o, o.cfg, trace_dir=tdir,
                                         want=('C02',))
            n_runs += 1
            checked += res['stats'].get('nodes_checked', 0)
            for f in res['findings']:
                if f['prop'] == 'C02':
                    violations.append({
                        'key': f['key'],
                        'msg': f"{f['key']}: {f['msg']}\nquery gene order "
                               f"{genes} reference order {b.ref_genes} "
                               f"normalization {norm}"})
            if o.ok and res['stats'].get('nodes_checked', 0) > 0:
                keys.append(f'perm L={L} {perm} {norm}')
                outcomes.add(mapcheck.result_signature(o.blob['results']))
    return {'violations': violations[:50], 'keys': keys,
            'outcomes': sorted(outcomes)[:50], 'evaluations': n_runs,
            'extra': {'perm_runs': n_runs, 'perm_nodes_checked': checked},
            'sample': {'scenario': f'all {n_runs} gene-order permutations',
                       'reference_order': b.ref_genes}}


def evaluate_rewrite(case, scratch):
    spec = {'L': case['L'], 'shape': case['shape'], 'scheme': case['scheme'],
            'n_cells': 5, 'seed': case['seed'], 'marker_mode': 'full'}
    n, found = mapcheck.run_rewrite_history(spec, scratch, ('C02',))
    v = [{'key': f['key'], 'msg': f"{f['key']}: {f['msg']}\n{label}"}
         for label, f in found if f['prop'] == 'C02']
    return {'violations': v[:20], 'evaluations': n,
            'keys': [f'rewrite|{case["shape"]}|{i}' for i in range(n)],
            'outcomes': ['rewrite-history'],
            'extra': {'rewrite_history_runs': n}}


def evaluate(case, scratch):
    if case['kind'] == 'rewrite':
        return evaluate_rewrite(case, scratch)
    if case['kind'] == 'core':
        return evaluate_core(case, scratch)
    if case['kind'] == 'pipe':
        return evaluate_pipe(case, scratch)
    return evaluate_perm(case, scratch)


def post_check(tot):
    out = []
    ex = tot['extra']
    if ex.get('core_split_votes', 0) < 10:
        out.append({'key': 'vacuous', 'msg': f'core never split votes: {ex}'})
    if ex.get('pipe_nodes_checked', 0) < 100:
        out.append({'key': 'vacuous', 'msg': f'pipeline unbound: {ex}'})
    if ex.get('pipe_nodes_unbound', 0) > 0:
        # the recorder could not bind some draws: the evidence says so, the
        # trace-free oracle was used there (not an alarm)
        pass
    return out
