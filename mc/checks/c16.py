"""
C16 - validation rewrites identifiers and integers without altering the data.

Small-scope exhaustive enumeration on the real validate_h5ad with an explicit
closed gene table: (a) every ordered (min, max) pair of a boundary alphabet
of values placed in a small matrix x encodings x HDF5 layouts x {X, layer
with a decoy X of a different range} x rounding on/off; (b) every gene-name
sequence of length <= 3 (4 thorough) over an 8-letter alphabet; (c) duplicate
cell identifiers.  Oracle: sha256 of the input, independent readers for the
output.
"""
import hashlib
import itertools
import json

import anndata
import h5py
import numpy as np

from mc import sparsegen

PROPERTY = 'C16'
LEVEL = 'exploration'
RULE = ("(a) all ordered pairs (min<=max) over {-128.5,-1.5,-0.5,0,0.4,0.5,"
        "1.5,2.5,127.5,254.5,255.5,32767.5,65535.5,2^31-0.5} as the extreme "
        "values of a 2x3 matrix (other entries 1, 0.25 and, when in range, "
        "-1.2 / -0.7) x "
        "{dense, CSR, CSC} x {contiguous, chunk 1, chunk 2} x {X, layer "
        "'raw' with a decoy X} x round_to_int {True, False}; (b) all gene "
        "name sequences of length <= K over {Ensembl id, id.version, second "
        "id, known symbol, symbol mapping to the first id, unknown, unknown2, "
        "''}; (c) duplicate cell ids; (d) one mapper object validating every "
        "ordered pair (thorough: also triple) of files whose gene lists are "
        "the permutations of 2 (thorough: 2-3) of {id, known symbol, unknown, unknown2}, "
        "each output judged as if its file had been validated alone.  distinct_nontrivial = distinct "
        "(matrix, layout, flags) / name sequences for which an output file "
        "was produced and compared")
ASSUMPTIONS = [
    "explicit small GeneIdMapper table (closed alphabet); the shipped "
    "species tables are not enumerated",
    "a file in which no gene can be mapped at all is rejected by the "
    "library; that case is not judged",
]
CASE_TIMEOUT = 900

VALUES = [-128.5, -1.5, -0.5, 0.0, 0.4, 0.5, 1.5, 2.5, 127.5, 254.5, 255.5,
          32767.5, 65535.5, 2.0 ** 31 - 0.5]
GENES = ['ENSMUSG00000000001', 'ENSMUSG00000000002.7', 'ENSMUSG00000000003',
         'sym_known', 'sym_to_first', 'unknown_a', 'unknown_b', '']
HIST_GENES = [0, 3, 5, 6]     # id, known symbol, two unknown names
TABLE = {'sym_known': 'ENSMUSG00000000099',
         'sym_to_first': 'ENSMUSG00000000001'}


def bounds(tier):
    return {'values': VALUES, 'gene_seq_len': 3 if tier == 'quick' else 4}


def cases(tier, seed):
    pairs = [(a, b) for a in VALUES for b in VALUES if a <= b]
    step = 2
    for i in range(0, len(pairs), step):
        yield {'kind': 'values', 'pairs': pairs[i:i + step], 'seed': seed,
               'tier': tier}
    K = bounds(tier)['gene_seq_len']
    seqs = []
    for k in range(1, K + 1):
        seqs += [list(s) for s in itertools.product(range(len(GENES)),
                                                    repeat=k)]
    for i in range(0, len(seqs), 40):
        yield {'kind': 'genes', 'seqs': seqs[i:i + 40], 'seed': seed}
    yield {'kind': 'cells', 'seed': seed}
    # one mapper object validating a SEQUENCE of files: every ordered pair
    # (thorough: triple) of name lists, each judged as if validated alone
    lists = [list(s) for k in (2, 3) for s in
             itertools.permutations(HIST_GENES, k)]
    lists = [x for x in lists if expected_names(
        [GENES[i] for i in x])[0] == 'ok']
    short = [i for i, x in enumerate(lists) if len(x) == 2]
    if tier == 'thorough':
        hist = [list(h) for h in itertools.product(range(len(lists)),
                                                   repeat=2)]
        hist += [list(h) for h in itertools.product(short, repeat=3)]
    else:
        hist = [list(h) for h in itertools.product(short, repeat=2)]
    for i in range(0, len(hist), 60):
        yield {'kind': 'history', 'lists': lists, 'hist': hist[i:i + 60],
               'seed': seed}


def sha(path):
    return hashlib.sha256(open(path, 'rb').read()).hexdigest()


def new_mapper():
    from cell_type_mapper.gene_id.gene_id_mapper import GeneIdMapper
    return GeneIdMapper(data=dict(TABLE))


def run_validate(src, out_dir, tmp, layer, round_to_int, mapper=None):
    from cell_type_mapper.validation.validate_h5ad import validate_h5ad
    import warnings
    warnings.filterwarnings('ignore')
    if mapper is None:
        mapper = new_mapper()
    return validate_h5ad(h5ad_path=src, output_dir=out_dir,
                         gene_id_mapper=mapper, tmp_dir=tmp, layer=layer,
                         round_to_int=round_to_int, expected_max=None)


def expected_names(names):
    """-> ('error', why) | ('ok', mapped list with None for placeholders)"""
    if len(set(names)) != len(names):
        return 'error', 'duplicate gene names'
    if '' in names:
        return 'error', 'empty gene name'
    import re
    ens = re.compile(r'ENS[A-Z]+[0-9]+(\.[0-9]+)?')
    out = []
    n_ok = 0
    for g in names:
        if ens.fullmatch(g):
            out.append(g.split('.')[0])
            n_ok += 1
        elif g in TABLE:
            out.append(TABLE[g])
            n_ok += 1
        else:
            out.append(None)
    if n_ok == 0:
        return 'unjudged', 'no gene can be mapped'
    real = [x for x in out if x is not None]
    if len(set(real)) != len(real):
        return 'error', 'two genes map to one identifier'
    return 'ok', out


def check_output(path, src_mat, names, exp_names, obs_ids, round_to_int,
                 needs_round, desc):
    msgs = []
    a = anndata.read_h5ad(path)
    if [str(x) for x in a.obs.index.values] != list(obs_ids):
        msgs.append('cells / order differ')
    if list(a.obs.columns) != ['o']:
        msgs.append(f'obs columns {list(a.obs.columns)}')
    got_names = [str(x) for x in a.var.index.values]
    if 'v' not in list(a.var.columns) or list(a.var['v'].values) != [
            f'v{j}' for j in range(len(names))]:
        msgs.append(f'var annotations lost: {list(a.var.columns)}')
    placeholders = []
    for g, e, orig in zip(got_names, exp_names, names):
        if e is None:
            placeholders.append(g)
            if g == orig or g in TABLE.values():
                msgs.append(f'unknown gene {orig!r} became {g!r}')
        elif g != e:
            msgs.append(f'gene {orig!r} became {g!r} expected {e!r}')
    if len(set(got_names)) != len(got_names):
        msgs.append(f'gene names not unique in the output: {got_names}')
    mapping = a.uns.get('AIBS_CDM_gene_mapping')
    exp_map = {o: g for o, g in zip(names, got_names) if o != g}
    if exp_map:
        if mapping is None or dict(mapping) != exp_map:
            msgs.append(f'recorded renaming {mapping} expected {exp_map}')
    n_mapped = a.uns.get('AIBS_CDM_n_mapped_genes')
    exp_n = len([e for e in exp_names if e is not None])
    if n_mapped is None or int(n_mapped) != exp_n:
        msgs.append(f'recorded number of mapped genes {n_mapped} expected '
                    f'{exp_n}')
    x = sparsegen.read_x_dense(path)
    with h5py.File(path, 'r') as f:
        node = f['X']
        dt = node.dtype if isinstance(node, h5py.Dataset) else \
            node['data'].dtype
    if x.shape != src_mat.shape:
        msgs.append(f'X shape {x.shape}')
        return msgs
    if round_to_int and needs_round:
        if not np.issubdtype(dt, np.integer):
            msgs.append(f'rounding requested but X has dtype {dt}')
        else:
            info = np.iinfo(dt)
            rmin, rmax = np.round(src_mat.min()), np.round(src_mat.max())
            if rmin < info.min or rmax > info.max:
                msgs.append(f'dtype {dt} cannot hold [{rmin},{rmax}]')
        delta = np.abs(x.astype(np.float64) - src_mat.astype(np.float64))
        if delta.max() > 0.5:
            i, j = np.unravel_index(delta.argmax(), delta.shape)
            msgs.append(f'value moved by {delta.max()}: '
                        f'{src_mat[i, j]} -> {x[i, j]} (dtype {dt})')
        if np.any(x.astype(np.float64) != np.round(x.astype(np.float64))):
            msgs.append('values not integers after rounding')
    else:
        if not np.array_equal(x.astype(np.float64),
                              src_mat.astype(np.float64)):
            msgs.append(f'X changed although no rounding was due:\n{x}')
    return msgs


def evaluate(case, scratch):
    d = scratch.new_dir('c16')
    violations = []
    keys = []
    n = 0
    sample = None
    from mc import common

    def one(mat, names, enc, chunks, layer, round_to_int, obs_ids, tag,
            expect_names=None, mapper=None, note=''):
        nonlocal n, sample
        src = d / f'in_{tag}.h5ad'
        decoy = np.full(mat.shape, 3.0)       # small-range decoy X
        sparsegen.write_h5ad(src, mat, enc, layer=layer, chunks=chunks,
                             obs_ids=list(obs_ids), var_ids=list(names),
                             extra_layer=decoy)
        before = sha(src)
        out_dir = d / f'out_{tag}'
        tmp = d / f'tmp_{tag}'
        out_dir.mkdir()
        tmp.mkdir()
        desc = (f'matrix={mat.tolist()} genes={names} {enc} chunks={chunks} '
                f'layer={layer} round_to_int={round_to_int}{note}')
        status, exp = expected_names(names)
        if len(set(obs_ids)) != len(obs_ids):
            status, exp = 'error', 'duplicate cell ids'
        err = None
        res = None
        try:
            res = run_validate(src, out_dir, tmp, layer, round_to_int,
                               mapper=mapper)
        except Exception as e:
            err = f'{type(e).__name__}: {str(e)[:300]}'
        common.close_leaked_h5()
        n += 1
        msgs = []
        if sha(src) != before:
            msgs.append('the input file was modified')
        left = [p.name for p in tmp.iterdir()]
        if left:
            msgs.append(f'scratch left {left}')
        outs = sorted(p.name for p in out_dir.iterdir())
        if status == 'error':
            if err is None:
                msgs.append(f'accepted although {exp}')
            elif outs:
                msgs.append(f'rejected ({exp}) but wrote {outs}')
        elif status == 'ok':
            needs_round = bool(np.any(mat != np.round(mat)))
            renamed = any(e is None or e != o for e, o in zip(exp, names))
            changes = (layer != 'X') or renamed or (round_to_int
                                                    and needs_round)
            if err is not None:
                msgs.append(f'raised {err}')
            else:
                path = res[0] if isinstance(res, tuple) else res
                if not changes:
                    if path is not None or outs:
                        msgs.append(f'no change needed, yet returned {path} '
                                    f'and wrote {outs}')
                else:
                    if path is None or len(outs) != 1:
                        msgs.append(f'change needed, returned {path}, '
                                    f'files {outs}')
                    else:
                        msgs += check_output(
                            path, mat, names, exp, obs_ids, round_to_int,
                            needs_round, desc)
                        keys.append(desc)
                        if sample is None:
                            sample = {'case': desc, 'output': outs}
        for m in msgs[:3]:
            violations.append({'key': classify(m), 'msg': f'{desc}: {m}'})
        import shutil
        shutil.rmtree(out_dir, ignore_errors=True)
        shutil.rmtree(tmp, ignore_errors=True)
        src.unlink()

    good = ['ENSMUSG00000000001', 'ENSMUSG00000000003', 'sym_known']
    if case['kind'] == 'values':
        k = 0
        for lo, hi in case['pairs']:
            for filler in (1.0, 0.25, -1.2, -0.7):
                if filler < 0 and not (lo <= filler <= hi):
                    continue      # negative fillers stay inside [lo, hi]
                mat = np.array([[lo, filler, 0.0], [0.0, hi, filler]])
                if lo > 0 or hi < 0:
                    mat = np.array([[lo, filler, lo], [lo, hi, filler]])
                    mat[mat == filler] = min(max(filler, lo), hi)
                for enc in ('dense', 'csr', 'csc'):
                    for chunks in (None, 1, 2):
                        if case['tier'] == 'quick' and chunks is not None \
                                and (k + (enc == 'csr')) % 3 != chunks:
                            continue
                        for layer in ('X', 'raw'):
                            for rti in (True, False):
                                k += 1
                                one(mat, good, enc, chunks, layer, rti,
                                    ['c0', 'c1'], f'v{k}')
    elif case['kind'] == 'genes':
        mat = np.array([[1.0, 2.0, 0.0, 3.0], [0.0, 5.0, 6.0, 0.0]])
        for si, seq in enumerate(case['seqs']):
            names = [GENES[i] for i in seq]
            m = mat[:, :len(names)]
            one(m, names, ['dense', 'csr', 'csc'][si % 3], None, 'X',
                bool(si % 2), ['c0', 'c1'], f'g{si}')
    elif case['kind'] == 'history':
        mat = np.array([[1.0, 2.0, 0.0], [0.0, 5.0, 6.0]])
        for hi, h in enumerate(case['hist']):
            mapper = new_mapper()
            seen = []
            for step, li in enumerate(h):
                names = [GENES[i] for i in case['lists'][li]]
                one(mat[:, :len(names)], names,
                    ['dense', 'csr', 'csc'][(hi + step) % 3], None, 'X',
                    False, ['c0', 'c1'], f'h{hi}_{step}', mapper=mapper,
                    note=(f' (file {step + 1} of one mapper object; '
                          f'earlier files had genes {seen})'))
                seen.append(names)
    else:
        mat = np.array([[1.0, 2.5], [0.0, 5.0], [7.0, 0.0]])
        for ids in (['a', 'b', 'a'], ['a', 'a', 'a'], ['x', 'y', 'z']):
            for enc in ('dense', 'csr', 'csc'):
                one(mat, good[:2], enc, None, 'X', True, ids,
                    f'c{enc}{"".join(ids)}')
    return {'violations': violations[:40], 'keys': keys,
            'outcomes': [case['kind']], 'evaluations': n, 'sample': sample}


def classify(m):
    if 'input file was modified' in m:
        return 'input-modified'
    if 'accepted although' in m:
        return 'invalid-input-accepted'
    if 'value moved' in m or 'cannot hold' in m or 'X changed' in m:
        return 'data-altered'
    return 'validation-wrong'


def post_check(tot):
    if len(tot['keys']) < 200:
        return [{'key': 'vacuous', 'msg': f"{len(tot['keys'])} outputs"}]
    return []
