"""
C12 - selected query markers cover every cluster pair as far as possible.

Small-scope exhaustive enumeration on the real selection code over SYNTHETIC
reference-marker files: 3 leaves (3 leaf pairs) x G genes with EVERY
assignment of {none, up, down} to the (pair, gene) cells (3^9 tables for
G=3), two taxonomies over the same leaves (flat; two-level with a parent that
has nothing to discriminate), per-direction targets {1,2,3}, query gene sets
{all, each single gene dropped, one foreign gene added}, each parent selected
on the full table AND on the table thinned to its pairs; plus
select_all_markers over worker counts, large-parent thresholds and per-parent
overrides.  Oracle: a census computed from the file with sets.
"""
import itertools
import json

import h5py
import numpy as np

PROPERTY = 'C12'
LEVEL = 'exploration'
RULE = ("every table in {none,up,down}^(3 pairs x G genes), G=3 "
        "(thorough: unthinned, plus every 7th table of G=4 thinned like the "
        "quick tier - a sub-lattice, not exhaustive) x taxonomy {flat, two-level} x target {1,2,3} x query "
        "gene sets {all, drop each one, add a foreign gene} x {full table, "
        "thinned table} per parent through select_marker_genes_v2 (quick: "
        "the two-level taxonomy on every table, the flat one on every 3rd, "
        "query-set deviations on every 9th); "
        "select_all_markers with n_processors {1,2,3} x behemoth_cutoff "
        "{0,1,10^7} x per-parent override for every 27th table (quick: "
        "every 81st, workers {1,3}, cutoffs {0,10^7}).  "
        "distinct_nontrivial = distinct (table, taxonomy, target, query set) "
        "with >= 1 marker available in the query")
ASSUMPTIONS = [
    "markers are unranked (the selection code's own model): a gene either "
    "is or is not an up/down marker of a pair",
]
CASE_TIMEOUT = 1200

LEAVES = ['lf_c', 'lf_a', 'lf_b']            # listing order != sorted
SORTED = sorted(LEAVES)
PAIRS = list(itertools.combinations(SORTED, 2))   # index = column
TREES = {
    'flat': {'hierarchy': ['cluster'],
             'cluster': {leaf: [] for leaf in LEAVES}},
    'two': {'hierarchy': ['class', 'cluster'],
            'class': {'K2': ['lf_b'], 'K1': ['lf_c', 'lf_a']},
            'cluster': {leaf: [] for leaf in LEAVES}},
}


def bounds(tier):
    if tier == 'quick':
        return {'n_genes': 3, 'targets': [1, 2, 3], 'thinned': True}
    return {'n_genes': 3, 'targets': [1, 2, 3], 'thinned': False,
            'n_genes_sublattice': 4, 'sublattice_stride': 7}


def cases(tier, seed):
    yield {'kind': 'big', 'seed': seed}
    if tier == 'quick':
        n_tables = 3 ** 9
        for start in range(0, n_tables, 81):
            yield {'G': 3, 'start': start,
                   'stop': min(n_tables, start + 81), 'seed': seed,
                   'quick': True}
        return
    # thorough: the whole product, unthinned, over every 3-gene table ...
    n_tables = 3 ** 9
    for start in range(0, n_tables, 81):
        yield {'G': 3, 'start': start, 'stop': min(n_tables, start + 81),
               'seed': seed, 'quick': False}
    # ... and the thinned product over every 7th 4-gene table (a regular
    # sub-lattice of the 3^12 tables: the full set takes hours)
    n_tables = 3 ** 12
    for start in range(0, n_tables, 2187):
        yield {'G': 4, 'start': start, 'stop': min(n_tables, start + 2187),
               'seed': seed, 'quick': True, 'stride': 7}


def table_from_index(idx, G):
    """-> cells[pair][gene] in {0: none, 1: up, 2: down}"""
    cells = []
    for p in range(3):
        row = []
        for g in range(G):
            row.append(idx % 3)
            idx //= 3
        cells.append(row)
    return cells


def write_marker_file(path, cells, genes, pairs=None):
    pairs = PAIRS if pairs is None else pairs
    n_pairs, G = len(cells), len(genes)
    pair_to_idx = {'cluster': {}}
    for idx, (a, b) in enumerate(pairs):
        pair_to_idx['cluster'].setdefault(a, {})[b] = idx
        pair_to_idx['cluster'].setdefault(b, {})

    def csr(flag):
        ptr = [0]
        ind = []
        for p in range(n_pairs):
            ind += [g for g in range(G) if cells[p][g] == flag]
            ptr.append(len(ind))
        return np.array(ptr, dtype=np.int64), np.array(ind, dtype=np.int64)

    def csc(flag):
        ptr = [0]
        ind = []
        for g in range(G):
            ind += [p for p in range(n_pairs) if cells[p][g] == flag]
            ptr.append(len(ind))
        return np.array(ptr, dtype=np.int64), np.array(ind, dtype=np.int64)

    with h5py.File(path, 'w') as dst:
        dst.create_dataset('gene_names',
                           data=json.dumps(genes).encode('utf-8'))
        dst.create_dataset('pair_to_idx',
                           data=json.dumps(pair_to_idx).encode('utf-8'))
        dst.create_dataset('n_pairs', data=n_pairs)
        dst.create_dataset('metadata', data=json.dumps({}).encode('utf-8'))
        gp = dst.create_group('sparse_by_pair')
        gg = dst.create_group('sparse_by_gene')
        for name, flag in (('up', 1), ('down', 2)):
            ptr, ind = csr(flag)
            gp.create_dataset(f'{name}_pair_idx', data=ptr)
            gp.create_dataset(f'{name}_gene_idx', data=ind)
            ptr, ind = csc(flag)
            gg.create_dataset(f'{name}_gene_idx', data=ptr)
            gg.create_dataset(f'{name}_pair_idx', data=ind)


def required_pairs(tree_name, parent):
    """indices of the leaf pairs `parent` must discriminate"""
    if tree_name == 'flat':
        return [0, 1, 2] if parent is None else []
    kids = {'K1': {'lf_c', 'lf_a'}, 'K2': {'lf_b'}}
    out = []
    for idx, (a, b) in enumerate(PAIRS):
        if parent is None:
            ka = 'K1' if a in kids['K1'] else 'K2'
            kb = 'K1' if b in kids['K1'] else 'K2'
            if ka != kb:
                out.append(idx)
        else:
            if a in kids[parent[1]] and b in kids[parent[1]]:
                out.append(idx)
    return out


def census(selected, cells, genes, query, req, target, label):
    msgs = []
    if len(set(selected)) != len(selected):
        msgs.append(f'{label}: duplicates in {selected}')
    for g in selected:
        if g not in query:
            msgs.append(f'{label}: selected {g!r} is not a query gene')
        elif g not in genes:
            msgs.append(f'{label}: selected {g!r} unknown to the reference')
        elif not any(cells[p][genes.index(g)] for p in req):
            msgs.append(f'{label}: selected {g!r} marks none of the pairs '
                        f'{[PAIRS[p] for p in req]} the parent must '
                        'discriminate')
    if not req and selected:
        msgs.append(f'{label}: nothing to discriminate, yet {selected}')
    for p in req:
        avail = [g for gi, g in enumerate(genes)
                 if cells[p][gi] and g in query]
        got = [g for g in selected if g in avail]
        need = min(2 * target, len(avail))
        if len(got) < need:
            msgs.append(f'{label}: pair {PAIRS[p]} covered by {len(got)} '
                        f'selected markers {got}; {len(avail)} available in '
                        f'the query, target {target} per direction => at '
                        f'least {need}')
    return msgs


def evaluate_big(case, scratch):
    """a parent with exactly 256 leaf pairs (16 x 16 leaves), so that pair
    columns reach 255, the boundary of an 8-bit index; and a history of two
    selections on ONE marker file with two taxonomies that share parent
    names (state carried between calls)"""
    import warnings
    warnings.filterwarnings('ignore')
    from cell_type_mapper.taxonomy.taxonomy_tree import TaxonomyTree
    from cell_type_mapper.marker_selection.marker_array import (
        MarkerGeneArray)
    from cell_type_mapper.marker_selection.selection import (
        select_marker_genes_v2)
    from cell_type_mapper.marker_selection.selection_pipeline import (
        select_all_markers)
    from mc import common
    d = scratch.new_dir('c12big')
    tmp = scratch.new_dir('tmp')
    violations = []
    keys = []
    n_eval = 0

    def viol(key, msgs):
        for m in msgs[:3]:
            violations.append({'key': key, 'msg': m[:1200]})

    # ---- 16 x 16
    la = [f'a{i:02d}' for i in range(16)]
    lb = [f'b{i:02d}' for i in range(16)]
    leaves = sorted(la + lb)
    pairs = list(itertools.combinations(leaves, 2))
    genes = [f'g{j}' for j in range(8)]
    rng = np.random.default_rng(case['seed'] + 4)
    cells = [[0] * len(genes) for _ in pairs]
    cross = [i for i, (x, y) in enumerate(pairs) if x[0] != y[0]]
    for i in cross:
        for g in range(6):
            if rng.uniform() < 0.4:
                cells[i][g] = int(rng.integers(1, 3))
    # the LAST cross pair relies on markers no other pair has
    last = cross[-1]
    cells[last] = [0, 0, 0, 0, 0, 0, 1, 2]
    path = d / 'big.h5'
    write_marker_file(path, cells, genes, pairs=pairs)
    tree = TaxonomyTree(data={
        'hierarchy': ['class', 'cluster'],
        'class': {'A': la, 'B': lb},
        'cluster': {leaf: [] for leaf in leaves}})

    def census_big(selected, req, target, label):
        msgs = []
        if len(set(selected)) != len(selected):
            msgs.append(f'{label}: duplicates')
        for p in req:
            avail = [g for gi, g in enumerate(genes) if cells[p][gi]]
            got = [g for g in selected if g in avail]
            need = min(2 * target, len(avail))
            if len(got) < need:
                msgs.append(f'{label}: pair {pairs[p]} covered by '
                            f'{len(got)} of the required {need}')
        return msgs

    full = MarkerGeneArray.from_cache_path(cache_path=path,
                                           query_gene_names=list(genes),
                                           tmp_dir=tmp)
    res = {}
    for variant in ('full', 'thinned'):
        arr = full.spawn_copy() if variant == 'full' else \
            full.downsample_pairs_to_other(
                only_keep_pairs=tree.leaves_to_compare(None), tmp_dir=tmp)
        for target in (1, 2):
            sel = [str(x) for x in select_marker_genes_v2(
                marker_gene_array=arr.spawn_copy(),
                query_gene_names=list(genes), taxonomy_tree=tree,
                parent_node=None, n_per_utility=target, tmp_dir=tmp)]
            n_eval += 1
            res[(variant, target)] = sorted(sel)
            viol('coverage-wrong', census_big(
                sel, cross, target, f'16x16 root [{variant}] target '
                                    f'{target}'))
            keys.append(f'big|{variant}|{target}')
    for target in (1, 2):
        if res[('full', target)] != res[('thinned', target)]:
            viol('depends-on-full-vs-thinned-table',
                 [f'16x16 root target {target}: {res[("full", target)]} vs '
                  f'{res[("thinned", target)]}'])
    for cutoff in (0, 10 ** 7):
        lookup, _ = select_all_markers(
            marker_cache_path=path, query_gene_names=list(genes),
            taxonomy_tree=tree, n_per_utility=2, n_processors=2,
            behemoth_cutoff=cutoff, tmp_dir=tmp)
        common.close_leaked_h5()
        n_eval += 1
        viol('coverage-wrong', census_big(
            [str(x) for x in lookup[None]], cross, 2,
            f'16x16 select_all_markers cutoff={cutoff}'))
    # ---- two taxonomies over the same leaves / same marker file
    cells3 = [[1, 2, 0], [2, 0, 1], [0, 1, 2]]
    genes3 = ['gn_z', 'gn_y', 'gn_x']
    p3 = d / 'hist.h5'
    write_marker_file(p3, cells3, genes3)
    tree_a = TaxonomyTree(data=json.loads(json.dumps(TREES['two'])))
    tree_b = TaxonomyTree(data={
        'hierarchy': ['class', 'cluster'],
        'class': {'K1': ['lf_c'], 'K2': ['lf_a', 'lf_b']},
        'cluster': {leaf: [] for leaf in LEAVES}})
    req_b = {None: [i for i, (x, y) in enumerate(PAIRS)
                    if 'lf_c' in (x, y)],
             ('class', 'K1'): [],
             ('class', 'K2'): [i for i, (x, y) in enumerate(PAIRS)
                               if 'lf_c' not in (x, y)]}
    for order in (('b', 'a'), ('a', 'b'), ('b', 'a', 'b')):
        for which in order:
            tr = tree_a if which == 'a' else tree_b
            lookup, _ = select_all_markers(
                marker_cache_path=p3, query_gene_names=list(genes3),
                taxonomy_tree=tr, n_per_utility=1, n_processors=2,
                tmp_dir=tmp)
            common.close_leaked_h5()
            n_eval += 1
            for parent in [None, ('class', 'K1'), ('class', 'K2')]:
                req = required_pairs('two', parent) if which == 'a' \
                    else req_b[parent]
                viol('coverage-wrong', census(
                    [str(x) for x in lookup[parent]], cells3, genes3,
                    genes3, req, 1,
                    f'history {order} on one marker file, taxonomy '
                    f'{which}, parent {parent}'))
            keys.append(f'history|{order}|{which}')
    return {'violations': violations[:30], 'keys': keys,
            'outcomes': ['big'], 'evaluations': n_eval,
            'sample': {'kind': '16x16 leaves (256 cross pairs) and a '
                               'two-taxonomy history on one marker file'}}


def evaluate(case, scratch):
    if case.get('kind') == 'big':
        return evaluate_big(case, scratch)
    import warnings
    warnings.filterwarnings('ignore')
    from cell_type_mapper.taxonomy.taxonomy_tree import TaxonomyTree
    from cell_type_mapper.marker_selection.marker_array import (
        MarkerGeneArray)
    from cell_type_mapper.marker_selection.selection import (
        select_marker_genes_v2)
    from cell_type_mapper.marker_selection.selection_pipeline import (
        select_all_markers)
    from mc import common
    G = case['G']
    genes = [f'gn_{"zyxw"[g]}' for g in range(G)]      # not sorted
    d = scratch.new_dir('c12')
    tmp = scratch.new_dir('tmp')
    trees = {k: TaxonomyTree(data=json.loads(json.dumps(v)))
             for k, v in TREES.items()}
    parents = {'flat': [None], 'two': [None, ('class', 'K1'),
                                       ('class', 'K2')]}
    violations = []
    keys = []
    n_eval = 0
    sample = None
    query_sets = [list(genes)] + [
        [g for g in genes if g != drop] for drop in genes] + [
        ['foreign_gene'] + list(reversed(genes))]

    def viol(key, msgs):
        for m in msgs[:2]:
            violations.append({'key': key, 'msg': m})

    for idx in range(case['start'], case['stop'], case.get('stride', 1)):
        cells = table_from_index(idx, G)
        path = d / f't_{idx}.h5'
        write_marker_file(path, cells, genes)
        for qi, query in enumerate(query_sets):
            if qi and idx % 9 != qi % 9:
                continue          # query deviations on a subset of tables
            try:
                full = MarkerGeneArray.from_cache_path(
                    cache_path=path, query_gene_names=query, tmp_dir=tmp)
            except Exception as e:
                viol('selection-raised',
                     [f'table {cells} query {query}: from_cache_path '
                      f'{type(e).__name__}: {e}'])
                continue
            for tname in ('flat', 'two'):
                if tname == 'flat' and case.get('quick') and idx % 3:
                    continue
                tree = trees[tname]
                for parent in parents[tname]:
                    req = required_pairs(tname, parent)
                    thinned = None
                    if req:
                        thinned = full.downsample_pairs_to_other(
                            only_keep_pairs=tree.leaves_to_compare(parent),
                            tmp_dir=tmp)
                    for target in (1, 2, 3):
                        results = {}
                        for variant in ('full', 'thinned'):
                            if variant == 'full' and req and target != 1 \
                                    and case.get('quick'):
                                continue   # quick: full table at target 1
                            if variant == 'thinned':
                                if not req:
                                    continue
                                arr = thinned.spawn_copy()
                            else:
                                arr = full.spawn_copy()
                            label = (f'table(pairs x genes, 1=up 2=down)='
                                     f'{cells} genes={genes} query={query} '
                                     f'tree={tname} parent={parent} target='
                                     f'{target} [{variant}]')
                            try:
                                sel = select_marker_genes_v2(
                                    marker_gene_array=arr,
                                    query_gene_names=list(query),
                                    taxonomy_tree=tree, parent_node=parent,
                                    n_per_utility=target, tmp_dir=tmp)
                            except Exception as e:
                                import traceback
                                if not req:
                                    # the pipeline never calls the selector
                                    # for such a parent
                                    continue
                                viol('selection-raised',
                                     [f'{label}: {type(e).__name__}: {e} '
                                      f'{traceback.format_exc()[-300:]}'])
                                continue
                            n_eval += 1
                            sel = [str(s) for s in sel]
                            results[variant] = sorted(sel)
                            viol('coverage-wrong',
                                 census(sel, cells, genes, query, req,
                                        target, label))
                        if len(results) == 2 and \
                                results['full'] != results['thinned']:
                            viol('depends-on-full-vs-thinned-table',
                                 [f'table {cells} query={query} tree={tname}'
                                  f' parent={parent} target={target}: full '
                                  f'table gives {results["full"]}, thinned '
                                  f'table {results["thinned"]}'])
                        if any(cells[p][gi] and g in query for p in req
                               for gi, g in enumerate(genes)):
                            keys.append(f'{idx}|{qi}|{tname}|{parent}|'
                                        f'{target}')
        # ---- the pipeline entry point: workers / thresholds / overrides
        if idx % (81 if case.get('quick') else 27) == 0:
            tree = trees['two']
            base = None
            for npr in ((1, 3) if case.get('quick') else (1, 2, 3)):
                for cutoff in ((0, 10 ** 7) if case.get('quick')
                               else (0, 1, 10 ** 7)):
                    for override in (None, {('class', 'K1'): 3}):
                        try:
                            lookup, _ = select_all_markers(
                                marker_cache_path=path,
                                query_gene_names=list(genes),
                                taxonomy_tree=tree, n_per_utility=1,
                                n_processors=npr, behemoth_cutoff=cutoff,
                                n_per_utility_override=override,
                                tmp_dir=tmp)
                        except Exception as e:
                            viol('selection-raised',
                                 [f'select_all_markers table {cells} '
                                  f'n_processors={npr} cutoff={cutoff}: '
                                  f'{type(e).__name__}: {e}'])
                            continue
                        finally:
                            common.close_leaked_h5()
                        n_eval += 1
                        got = {('None' if k is None else f'{k[0]}/{k[1]}'):
                               sorted(str(x) for x in v)
                               for k, v in lookup.items()}
                        for parent in parents['two']:
                            key = 'None' if parent is None else \
                                f'{parent[0]}/{parent[1]}'
                            tgt = 1
                            if override and parent in override:
                                tgt = override[parent]
                            viol('coverage-wrong', census(
                                got.get(key, []), cells, genes, genes,
                                required_pairs('two', parent), tgt,
                                f'select_all_markers table {cells} '
                                f'n_processors={npr} cutoff={cutoff} '
                                f'override={override} parent={key}'))
                        bkey = str(override)
                        if base is None:
                            base = {}
                        if bkey not in base:
                            base[bkey] = got
                        elif got != base[bkey]:
                            viol('depends-on-workers-or-threshold',
                                 [f'select_all_markers table {cells} '
                                  f'n_processors={npr} cutoff={cutoff} '
                                  f'override={override}: {got} vs '
                                  f'{base[bkey]}'])
        if sample is None and any(any(r) for r in cells):
            sample = {'table': cells, 'genes': genes, 'pairs': PAIRS}
        path.unlink()
    return {'violations': violations[:40], 'keys': keys,
            'outcomes': [str(case['start'])], 'evaluations': n_eval,
            'sample': sample}


def post_check(tot):
    if len(tot['keys']) < 1000:
        return [{'key': 'vacuous', 'msg': f"{len(tot['keys'])} selections"}]
    return []
