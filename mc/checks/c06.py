"""
C06 - a cell's mapping depends only on its own expression vector (factor 1).

Metamorphic exhaustive exploration of run_mapping: from a base query of n
cells (two of them identical) EVERY row permutation, EVERY non-empty subset
of the rows, every single duplication of a row under a new id, every chunk
size 1..n+1 x worker count 1..3 is run and joined with the base run on the
cell id.
"""
import itertools

import numpy as np

from mc import domains, mapcheck, scenario

PROPERTY = 'C06'
LEVEL = 'exploration'
RULE = ("per tree shape (<= 3 levels) a base query of n cells with two "
        "identical vectors and one all-zero-free pure-leaf cell; all n! row "
        "permutations, all 2^n-1 row subsets, each row duplicated under a "
        "new id, all (chunk size 1..n+1) x (workers 1..3), raw and "
        "normalised input (and normalised input in which one cell is 10^5 "
        "times weaker than its companions: every 2nd subset / chunking), Manager-list seam; results joined on cell id with "
        "the base run: exact for assignments / probabilities / runner-up "
        "names, 1e-9 for correlations; cells whose choice is decided by less "
        "than 1e-7 are skipped.  distinct_nontrivial = distinct (shape, "
        "perturbation) runs compared on >= 1 non-fragile cell")
ASSUMPTIONS = [
    "bootstrap factor 1 (the property's precondition)",
    "near-ties (< 1e-7 correlation margin) are not compared (DESIGN D-c)",
]
CASE_TIMEOUT = 5400


def bounds(tier):
    if tier == 'quick':
        return {'max_levels': 3, 'max_leaves': 4, 'n_cells': 4}
    return {'max_levels': 3, 'max_leaves': 5, 'n_cells': 5}


def cases(tier, seed):
    b = bounds(tier)
    for si, (L, n, shape) in enumerate(domains.shapes_up_to(
            b['max_levels'], b['max_leaves'], min_leaves=2)):
        yield {'L': L, 'shape': shape, 'scheme': 'BDE'[si % 3],
               'n_cells': b['n_cells'], 'seed': seed, 'tier': tier}
        if si % 3 == 0 or tier == 'thorough':
            yield {'kind': 'bigcsc', 'L': L, 'shape': shape,
                   'scheme': 'BDE'[si % 3], 'seed': seed}


def evaluate_big_csc(case, scratch):
    """more stored entries than the enforced minimum block of the CSC to
    CSR transcription (100), at the minimum memory budget: a cell's vector
    must not depend on where the block boundaries fall"""
    n = 16
    spec = {'L': case['L'], 'shape': case['shape'], 'scheme': case['scheme'],
            'n_cells': n, 'seed': case['seed'], 'marker_mode': 'full'}
    b = scenario.build(spec, scratch.new_dir('in') / 'in')
    cfg0 = {'factor': 1.0, 'iterations': 1, 'chunk_size': 5,
            'n_processors': 2}
    base = scenario.run_mapping(b, cfg0, scratch.new_dir('base'))
    shape_s = domains.shape_str(scenario._as_shape(case['shape']))
    if not (base.ok and base.blob and 'results' in base.blob):
        return {'violations': [{'key': 'base-run-failed',
                                'msg': f'{shape_s}: {base.error}'}]}
    frag = mapcheck.fragile_cells(b, base.config)
    levels = b.model['hierarchy']
    violations = []
    keys = []
    runs = 1
    rows_list = [list(range(n)), list(range(n))[::-1],
                 list(range(5, n)) + list(range(5)), list(range(0, n, 2)),
                 list(range(n // 2)), list(range(n // 2, n))]
    for ri, rows in enumerate(rows_list):
        for max_gb in (1e-9, 10):
            ids = [b.cell_ids[r] for r in rows]
            q = scenario.write_query(b, 'raw', 'csc',
                                     name=f'big_{ri}.h5ad',
                                     matrix=b.raw[rows, :], ids=ids)
            r = scenario.run_mapping(
                b, dict(cfg0, encoding='csc', max_gb=max_gb),
                scratch.new_dir('r'), query_path=q)
            runs += 1
            desc = (f'{shape_s} CSC query of {len(rows)} cells (rows '
                    f'{rows}) max_gb={max_gb}')
            if not (r.ok and r.blob and 'results' in r.blob):
                violations.append({'key': 'perturbed-run-failed',
                                   'msg': f'{desc}: {r.error}'})
                continue
            for dmsg in mapcheck.compare_results(
                    base.blob['results'], r.blob['results'], levels,
                    tol=1e-9, skip=frag)[:2]:
                violations.append({
                    'key': 'depends-on-other-cells:csc-blocks',
                    'msg': f'{desc}: {dmsg}'})
            keys.append(desc)
    return {'violations': violations[:20], 'keys': keys,
            'outcomes': ['bigcsc'], 'evaluations': runs,
            'sample': {'shape': shape_s, 'kind': 'CSC query with > 100 '
                       'stored entries at the minimum budget',
                       'stored_entries': int((b.raw != 0).sum())}}


def perturbations(n, tier):
    """(label, row index list, new-id flags, cfg)"""
    base_rows = list(range(n))
    for perm in itertools.permutations(base_rows):
        if list(perm) != base_rows:
            yield ('perm', list(perm), {}, {})
    for k in range(1, n):
        for sub in itertools.combinations(base_rows, k):
            yield ('subset', list(sub), {}, {})
    for dup in base_rows:
        for pos in (0, n):
            rows = list(base_rows)
            rows.insert(pos, dup)
            yield ('dup', rows, {pos: f'dup_of_{dup}'}, {})
    for cs in range(1, n + 2):
        for npr in (1, 2, 3):
            yield ('chunk', base_rows, {}, {'chunk_size': cs,
                                            'n_processors': npr})
    for enc in ('csr', 'csc'):
        yield ('encoding', base_rows, {}, {'encoding': enc})
    # levels inferred for the run (drop / flatten): the inferred record of a
    # cell must come from that cell
    for red in ({'drop_level': 0}, {'flatten': True}):
        for perm in list(itertools.permutations(base_rows))[1::5]:
            yield ('perm+reduce', list(perm), {}, dict(red))
        for sub in itertools.combinations(base_rows, max(1, n - 2)):
            yield ('subset+reduce', list(sub), {}, dict(red))
    if tier == 'thorough':
        for perm in itertools.permutations(base_rows):
            for cs in (1, 2, n):
                yield ('perm+chunk', list(perm), {},
                       {'chunk_size': cs, 'n_processors': 2})


def evaluate(case, scratch):
    if case.get('kind') == 'bigcsc':
        return evaluate_big_csc(case, scratch)
    n = case['n_cells']
    spec = {'L': case['L'], 'shape': case['shape'], 'scheme': case['scheme'],
            'n_cells': n, 'seed': case['seed'], 'marker_mode': 'full',
            'dup_cells': True}
    b = scenario.build(spec, scratch.new_dir('in') / 'in')
    base_cfg = {'factor': 1.0, 'iterations': 2, 'n_runners_up': 2,
                'chunk_size': 2, 'n_processors': 2}
    violations = []
    keys = []
    outcomes = set()
    shape_s = domains.shape_str(scenario._as_shape(case['shape']))
    n_runs = 0
    sample = None
    for variant in ('raw', 'log2CPM', 'log2CPM-weak'):
        norm = variant.split('-')[0]
        if variant == 'log2CPM-weak':
            # the last cell becomes a weakly expressed one: the same
            # normalised profile 10^5 times smaller than its companions'
            b.log2cpm = np.array(b.log2cpm, dtype=float)
            b.log2cpm[n - 1, :] *= 1.0e-5
            b._query_cache.clear()
        matrix = b.raw if norm == 'raw' else b.log2cpm
        cfg0 = dict(base_cfg, normalization=norm)
        base = scenario.run_mapping(b, cfg0, scratch.new_dir('base'))
        n_runs += 1
        if not base.ok or not base.blob or 'results' not in base.blob:
            violations.append({'key': 'base-run-failed',
                               'msg': f'{shape_s}: {base.error}\n{base.tb}'})
            continue
        levels = b.model['hierarchy']
        base_by_red = {}
        frag = mapcheck.fragile_cells(b, base.config)
        base_res = base.blob['results']
        # identical vectors get identical results
        r0, r1 = base_res[0], base_res[1]
        if b.cell_ids[0] not in frag:
            d = mapcheck.compare_records(r0, r1, levels, tol=1e-9)
            if d:
                violations.append({
                    'key': 'identical-vectors-differ',
                    'msg': f'{shape_s} {norm}: cells {b.cell_ids[0]} and '
                           f'{b.cell_ids[1]} have equal vectors but '
                           f'{d[:3]}'})
        pert = list(perturbations(n, case['tier']))
        if variant == 'log2CPM':
            pert = [p for p in pert if p[0] in ('perm', 'subset', 'dup')][::3]
        elif variant == 'log2CPM-weak':
            pert = [p for p in pert if p[0] in ('subset', 'chunk')][::2]
        for pi, (label, rows, new_ids, cfg) in enumerate(pert):
            ids = []
            rename = {}
            for pos, r in enumerate(rows):
                if pos in new_ids:
                    ids.append(new_ids[pos])
                    rename[new_ids[pos]] = b.cell_ids[r]
                else:
                    ids.append(b.cell_ids[r])
            run_dir = scratch.new_dir('p')
            if rows == list(range(n)) and not new_ids:
                qpath = None
            else:
                qpath = scenario.write_query(
                    b, norm, 'dense', name=f'q_{norm}_{pi}.h5ad',
                    matrix=matrix[rows, :], ids=ids)
            c = dict(cfg0)
            c.update(cfg)
            red_key = (c.get('drop_level'), c.get('flatten', False))
            if red_key != (None, False):
                if case['L'] < 2:
                    continue
                if red_key not in base_by_red:
                    rb = scenario.run_mapping(
                        b, dict(cfg0, drop_level=c.get('drop_level'),
                                flatten=c.get('flatten', False)),
                        scratch.new_dir('baser'))
                    n_runs += 1
                    base_by_red[red_key] = rb.blob['results'] if (
                        rb.ok and rb.blob and 'results' in rb.blob) else None
                this_base = base_by_red[red_key]
                if this_base is None:
                    continue
            else:
                this_base = base_res
            if label == 'chunk' and pi % 5 == 0:
                r = mapcheck.run_direct(b, c, run_dir, query_path=qpath)
                from mc import common
                common.close_leaked_h5()
                cmp_levels = levels
            else:
                r = scenario.run_mapping(b, c, run_dir, query_path=qpath)
                cmp_levels = levels
            n_runs += 1
            desc = (f'{shape_s} scheme={case["scheme"]} {variant} {label} '
                    f'rows={rows} new_ids={new_ids} cfg={cfg}')
            if not r.ok or not r.blob or 'results' not in r.blob:
                violations.append({'key': 'perturbed-run-failed',
                                   'msg': f'{desc}: {r.error}\n{r.tb}'})
                continue
            res = r.blob['results']
            if r.blob.get('__direct__'):
                # the direct seam lacks nothing at factor 1 but carries no
                # backfilled levels; all levels are voted here
                pass
            diffs = mapcheck.compare_results(
                this_base, res, cmp_levels, tol=1e-9, skip=frag,
                rename=rename)
            got_ids = [x['cell_id'] for x in res]
            if got_ids != ids:
                diffs.append(f'ids {got_ids} expected {ids}')
            for dmsg in diffs[:3]:
                violations.append({'key': f'depends-on-other-cells:{label}',
                                   'msg': f'{desc}: {dmsg}'})
            if len(set(ids) - frag) > 0:
                keys.append(f'{shape_s}|{variant}|{label}|{rows}|'
                            f'{sorted(new_ids.items())}|{sorted(cfg.items())}')
            outcomes.add(mapcheck.result_signature(res))
            if sample is None and label == 'perm':
                sample = {'shape': shape_s, 'perturbation': label,
                          'rows': rows, 'fragile_cells': sorted(frag),
                          'base_first': base_res[0]}
    return {'violations': violations[:40], 'keys': keys,
            'outcomes': sorted(outcomes)[:100], 'evaluations': n_runs,
            'sample': sample}


def post_check(tot):
    if len(tot['keys']) < 100:
        return [{'key': 'vacuous', 'msg': 'too few compared runs'}]
    return []
