"""
C01 - every query cell gets one complete, ordered, tree-consistent record.

Bounded exhaustive exploration of the real pipeline (run_mapping, and the
Manager-list seam the CLI never takes): every tree shape in scope x label
scheme x query size x every configuration within the deviation bound of the
default; each output judged by the invariants of mc.models.mapping.
"""
import itertools

from mc import domains, mapcheck, scenario

PROPERTY = 'C01'
LEVEL = 'exploration'
RULE = ("every tree shape with <=L levels/<=N leaves x label scheme x query "
        "size; per scenario every configuration within d deviations of the "
        "default over {flatten, drop_level (each non-leaf level, unknown "
        "name), chunk_size {1,2,n-1,n,n+1}, n_processors {1,2,3}, "
        "n_runners_up {0,1,2,10}, encoding, buffer location, marker table "
        "mode} plus the named pairs flatten x chunking and drop x runners-up, "
        "plus the Manager-list seam.  distinct_nontrivial = distinct (shape, "
        "scheme, n_cells, config) runs that produced >= 1 record with >= 2 "
        "levels or >= 2 leaves")
ASSUMPTIONS = [
    "valid taxonomy = every non-leaf node has >= 1 child (DESIGN D-a)",
    "must-succeed precondition: root has a marker present in query and "
    "reference, no table gene unknown to the reference",
    "argschema-level argument validation is outside the seam",
]
CASE_TIMEOUT = 900


def bounds(tier):
    if tier == 'quick':
        return {'max_levels': 3, 'max_leaves': 4, 'schemes': ['B', 'D'],
                'n_cells': [1, 5], 'deviation_bound': 1}
    return {'max_levels': 4, 'max_leaves': 5, 'schemes': ['B', 'D'],
            'n_cells': [1, 3, 5], 'deviation_bound': 2}


def cases(tier, seed):
    b = bounds(tier)
    for L, n, shape in domains.shapes_up_to(b['max_levels'],
                                            b['max_leaves']):
        for scheme in b['schemes']:
            for n_cells in b['n_cells']:
                yield {'L': L, 'shape': shape, 'scheme': scheme,
                       'n_cells': n_cells, 'seed': seed,
                       # 4-level shapes: one deviation (the two-deviation
                       # product over them alone is ~300k pipeline runs)
                       'd': b['deviation_bound'] if L <= 3 else 1}
        if n >= 2 and L <= 2:
            # successive runs in one interpreter with inputs rewritten in
            # place (state carried between calls)
            yield {'L': L, 'shape': shape, 'scheme': 'B', 'n_cells': 5,
                   'seed': seed, 'd': 0, 'rewrite': True}
        # >= 11 cells in chunks of 1: per-chunk buffer names whose
        # lexicographic order differs from the row order
        yield {'L': L, 'shape': shape, 'scheme': 'B', 'n_cells': 12,
               'seed': seed, 'd': 0, 'many_chunks': True}
        if n == 3 or tier == 'thorough':
            # 100 cells: chunk names with one and two digit starts whose
            # first and last chunk still sort first and last
            yield {'L': L, 'shape': shape, 'scheme': 'D', 'n_cells': 100,
                   'seed': seed, 'd': 0, 'many_chunks': True}


def config_space(L, n_cells, d):
    alph = {
        'flatten': [True],
        'drop_level': list(range(L - 1)) + ['not_a_level'],
        'chunk_size': sorted({1, 2, max(1, n_cells - 1), n_cells,
                              n_cells + 1}),
        'n_processors': [1, 2, 3],
        'n_runners_up': [0, 1, 2, 10],
        'encoding': ['csr', 'csc'],
        'buffer': ['result_dir'],
        'marker_mode': ['fallback'],
        'seam': ['direct'],
    }
    default = dict(scenario.DEFAULT_CFG)
    default['marker_mode'] = 'full'
    default['seam'] = 'cli'
    seen = set()
    for cfg, dev in domains.deviations(default, alph, d):
        if cfg['flatten'] and cfg['drop_level'] is not None:
            pass        # allowed combination: drop then flatten
        key = tuple(sorted((k, str(v)) for k, v in cfg.items()))
        if key in seen:
            continue
        seen.add(key)
        yield cfg, dev
    if d < 2:
        # pairs named by the property
        for cs in alph['chunk_size']:
            for npr in (1, 3):
                cfg = dict(default, flatten=True, chunk_size=cs,
                           n_processors=npr)
                yield cfg, ('flatten', 'chunk_size', 'n_processors')
        for dl in range(L - 1):
            for nr in (0, 10):
                cfg = dict(default, drop_level=dl, n_runners_up=nr)
                yield cfg, ('drop_level', 'n_runners_up')


def evaluate(case, scratch, want=('C01',), prop='C01', space_fn=None):
    L = case['L']
    if case.get('rewrite'):
        spec = {'L': L, 'shape': case['shape'], 'scheme': case['scheme'],
                'n_cells': 5, 'seed': case['seed'], 'marker_mode': 'full'}
        n, found = mapcheck.run_rewrite_history(spec, scratch, want)
        v = [{'key': f['key'], 'msg': f"{f['key']}: {f['msg']}\n{label}"}
             for label, f in found if f['prop'] == prop]
        return {'violations': v[:20], 'evaluations': n,
                'keys': [f'rewrite|{case["shape"]}|{i}' for i in range(n)],
                'outcomes': ['rewrite-history']}
    violations = []
    keys = []
    outcomes = set()
    n_runs = 0
    built = {}
    sample = None
    if case.get('many_chunks'):
        space = []
        pools = ((1, 1), (1, 3), (5, 1))
        if case['n_cells'] >= 100:
            pools = ((5, 2), (1000, 16), (10, 3))
        for cs, npr in pools:
            c0 = dict(scenario.DEFAULT_CFG, chunk_size=cs, n_processors=npr,
                      marker_mode='full', seam='cli')
            space.append((c0, ('chunk_size', 'n_processors')))
        if case['n_cells'] < 100:
            space.append((dict(scenario.DEFAULT_CFG, chunk_size=1,
                               n_processors=3, marker_mode='full',
                               seam='direct'), ('chunk_size', 'seam')))
    elif space_fn is not None:
        space = space_fn(case)
    else:
        space = config_space(L, case['n_cells'], case['d'])
    for cfg, dev in space:
        cfg = dict(cfg)
        mmode = cfg.pop('marker_mode')
        seam = cfg.pop('seam')
        if mmode not in built:
            spec = {'L': L, 'shape': case['shape'], 'scheme': case['scheme'],
                    'n_cells': case['n_cells'], 'seed': case['seed'],
                    'marker_mode': mmode}
            spec.update(case.get('spec_extra', {}))
            built[mmode] = scenario.build(
                spec, scratch.new_dir('in') / 'in')
        b = built[mmode]
        if seam == 'direct':
            res = mapcheck.run_and_judge_direct(b, cfg, scratch, want=want)
        else:
            res = mapcheck.run_and_judge(None, cfg, scratch, want=want,
                                         built=b)
        n_runs += 1
        o = res['outcome']
        label = {k: cfg[k] for k in dev if k in cfg}
        label.update({'marker_mode': mmode, 'seam': seam})
        for f in res['findings']:
            if f['prop'] != prop:
                continue
            violations.append({
                'key': (classify(f, case, cfg, res) if prop == 'C01'
                        else f['key']),
                'msg': f"{f['key']}: {f['msg']}\nscenario: shape="
                       f"{domains.shape_str(scenario._as_shape(case['shape']))}"
                       f" scheme={case['scheme']} n_cells={case['n_cells']} "
                       f"config deviations={label}"})
        if o.ok and o.blob and o.blob.get('results'):
            full = res['full']
            if len(full['hierarchy']) >= 2 or len(full['leaves']) >= 2:
                keys.append([domains.shape_str(
                    scenario._as_shape(case['shape'])), case['scheme'],
                    case['n_cells'], sorted(label.items(), key=str)])
            outcomes.add(mapcheck.result_signature(o.blob['results']))
            if sample is None:
                sample = {
                    'shape': domains.shape_str(
                        scenario._as_shape(case['shape'])),
                    'scheme': case['scheme'], 'n_cells': case['n_cells'],
                    'config': label,
                    'first_record': o.blob['results'][0]}
        else:
            outcomes.add('error:' + str(o.error)[:80])
    return {'violations': violations, 'keys': keys,
            'outcomes': sorted(outcomes)[:200], 'evaluations': n_runs,
            'sample': sample}


def classify(f, case, cfg, res):
    """finding key -> known-finding key (specific failing input class)"""
    full = res.get('full')
    if f['key'] == 'mapping-raised' and full is not None:
        red = res['reduced']
        if len(red['nodes'][red['hierarchy'][0]]) == 1 and \
                'KeyError: None' in f['msg']:
            return 'F1:single-top-node-KeyError-None'
    return f['key']


def post_check(tot):
    if len(tot['outcomes']) < 10:
        return [{'key': 'vacuous',
                 'msg': f"only {len(tot['outcomes'])} distinct outcomes"}]
    return []
