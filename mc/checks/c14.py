"""
C14 - a failed worker fails the run; no partial result passes as success.

Exhaustive fault enumeration on the real stages under the controlled
scheduler (mc/vproc.py): every (stage configuration, worker index, failure
mode, crash point) with the failing worker observed early (eager schedule)
and late (lazy schedule); in the thorough tier every python-call boundary
inside the worker is a crash point.  Plus the TLA+ pool model with a failing
worker: TLC checks that every behaviour ends in `raised`, and every maximal
behaviour is replayed against the implementation with step-by-step
conformance.
"""
import json

from mc import stages, tlc, vproc

PROPERTY = 'C14'
LEVEL = 'fault_enumeration'
RULE = ("every stage configuration of the catalogue x every worker index x "
        "mode {SIGKILL, exit 3, raise} x crash point {before the target, "
        "after half of the worker's python calls inside cell_type_mapper, "
        "after the target} x schedule {eager: observed as soon as polled, "
        "lazy: every other worker observed first where the pool allows}; "
        "thorough: every call boundary 1..K of one worker per stage kind; "
        "model traces with FailSet={w} replayed.  distinct_nontrivial = "
        "distinct (stage, worker, mode, point, schedule) fault injections "
        "executed")
ASSUMPTIONS = [
    "crash points are python call boundaries inside cell_type_mapper, not "
    "arbitrary instructions or torn HDF5 writes",
    "a complete file already present before the failing run is not "
    "attributed to it (DESIGN D-e); every run writes to fresh locations",
    "an injected exception that python itself swallows (raised inside a "
    "destructor) leaves the worker's exit code 0 and is not judged",
]
CASE_TIMEOUT = 1500
MODES = ('kill', 'exit', 'raise')


def bounds(tier):
    return {'stages': sorted(stages.stage_catalog('quick').keys()),
            'modes': list(MODES), 'points': ['before', 'mid', 'after'],
            'every_call_boundary': tier == 'thorough', 'call_cap': 400}


def cases(tier, seed):
    cat = stages.stage_catalog('quick')
    for name in sorted(cat):
        yield {'kind': 'faults', 'stage': name, 'seed': seed}
        if cat[name].single_pool and name in (
                'mapping_cli_3x2', 'mapping_cli_4x3', 'mapping_direct_3x2',
                'pmask_4x3', 'precompute_3', 'transpose_3'):
            yield {'kind': 'tlc', 'stage': name, 'seed': seed}
    if tier == 'thorough':
        for name in ('mapping_cli_3x2', 'mapping_direct_3x2', 'precompute_2',
                     'refmarkers_2', 'pmask_4x2', 'frompmask_2',
                     'qmarkers_2', 'transpose_2'):
            for mode in MODES:
                yield {'kind': 'every-call', 'stage': name, 'mode': mode,
                       'seed': seed}


def lazy_script(n=64):
    return [1] * n


def inject(stage, w, mode, point, script):
    obs, err, sched = vproc.run_under(
        lambda: stage.run('f'), script=script, faults={w: (mode, point)},
        child_timeout=20.0)
    return obs, err, sched


def judge(stage, obs, err, sched, w, desc):
    """-> list of violations for a run in which worker w was made to fail"""
    out = []
    if obs is None:
        # the stage driver itself raised: that is "the call raises"
        return out
    failed_observed = any(e['ev'] == 'poll' and e['w'] == w
                          and e.get('finished') for e in sched.events)
    codes = [e.get('code') for e in sched.events
             if e['ev'] == 'poll' and e['w'] == w and e.get('finished')]
    if codes and codes[-1] == 0:
        # the injected exception did not terminate the worker (python
        # ignores exceptions raised inside destructors / callbacks): the
        # worker finished normally, so the statement does not apply
        return out
    msgs = stage.failure_findings(obs)
    if not failed_observed and obs.get('error') is None:
        msgs.append(f'worker {w} was never waited for')
    for m in msgs:
        out.append({'key': classify(m), 'msg': f'{desc}: {m}'})
    return out


def classify(m):
    if 'returned normally' in m or 'never waited' in m:
        return 'failed-worker-run-succeeds'
    if 'next stage accepts' in m:
        return 'partial-output-accepted'
    return 'failure-leaves-success-artifacts'


def evaluate(case, scratch):
    stage = stages.stage_catalog('quick')[case['stage']]
    stage.prepare(scratch, case['seed'])
    obs0, err0, sched0 = vproc.run_under(lambda: stage.run('base'),
                                         script=[], count_calls=True)
    if err0 or obs0 is None or obs0.get('error'):
        return {'violations': [{'key': 'baseline-failed',
                                'msg': f'{stage.name}: '
                                       f'{err0 or obs0.get("error")}'}]}
    n_workers = len(sched0.procs)
    calls = [p.n_calls or 0 for p in sched0.procs]
    violations = []
    keys = []
    outcomes = set()
    n = 0
    if case['kind'] == 'faults':
        for w in range(n_workers):
            for mode in MODES:
                for point in ('before', 'mid', 'after'):
                    if point == 'mid':
                        if calls[w] < 2:
                            continue
                        pt = ('call', max(1, calls[w] // 2))
                    else:
                        pt = point
                    for sname, script in (('eager', []),
                                          ('lazy', lazy_script())):
                        obs, err, sched = inject(stage, w, mode, pt, script)
                        n += 1
                        desc = (f'{stage.name} worker {w}/{n_workers} mode='
                                f'{mode} point={pt} schedule={sname}')
                        violations += judge(stage, obs, err, sched, w, desc)
                        keys.append(desc)
                        code = [e.get('code') for e in sched.events
                                if e['ev'] == 'poll' and e['w'] == w
                                and e.get('finished')]
                        outcomes.add(f'{mode}:{code}')
        sample = {'kind': 'faults', 'stage': stage.name,
                  'workers': n_workers, 'python_calls_per_worker': calls,
                  'injections': n}
        return {'violations': violations[:40], 'keys': keys,
                'outcomes': sorted(outcomes), 'evaluations': n,
                'extra': {'fault_injections': n}, 'sample': sample}

    if case['kind'] == 'every-call':
        w = 0
        mode = case['mode']
        K = min(calls[w], 400)
        for k in range(1, K + 1):
            obs, err, sched = inject(stage, w, mode, ('call', k), [])
            n += 1
            desc = f'{stage.name} worker {w} mode={mode} after call {k}/{K}'
            violations += judge(stage, obs, err, sched, w, desc)
            keys.append(desc)
        return {'violations': violations[:40], 'keys': keys,
                'outcomes': [f'{stage.name}:{mode}:{K}'], 'evaluations': n,
                'extra': {'call_boundary_injections': n,
                          'call_cap_hit': int(calls[w] > 400)},
                'sample': {'kind': 'every call boundary',
                           'stage': stage.name, 'mode': mode,
                           'boundaries': K}}

    # ---- TLC: behaviours with a failing worker
    states = transitions = replayed = paths_total = diverged = 0
    for w in range(n_workers):
        try:
            model = tlc.run_tlc(n_workers, stage.n_proc,
                                stage.idiom == 'list', fail_set={w},
                                work_root=str(scratch.base))
        except tlc.TlcError as e:
            return {'violations': [{'key': 'tlc-model-error',
                                    'msg': f'{stage.name}: {e}'}]}
        states += model['distinct_states']
        transitions += model['transitions']
        paths = tlc.maximal_paths(model['graph'])
        paths_total += len(paths)
        for path in paths:
            events, polls, final = tlc.path_to_script(path)
            pos = [0]
            mismatch = []

            def observer(ev, events=events, pos=pos, mismatch=mismatch):
                i = pos[0]
                pos[0] += 1
                if i >= len(events):
                    mismatch.append(f'extra implementation event {ev}')
                    return
                m = events[i]
                if ev['ev'] != m['ev'] or ev['w'] != m['w'] or (
                        ev['ev'] == 'poll'
                        and bool(ev['finished']) != bool(m['finished'])):
                    mismatch.append(f'step {i}: model {m} impl {ev}')
            try:
                obs, err, sched = vproc.run_under(
                    lambda: stage.run('t'), forced_script=polls,
                    faults={w: ('exit', 'after')}, observer=observer,
                    child_timeout=20.0)
            except vproc.ScheduleDivergence as e:
                mismatch.append(str(e))
                obs, err, sched = None, 'diverged', None
            desc = (f'{stage.name} FailSet={{{w}}} model trace '
                    f'{[(x, int(f)) for x, f in polls]} final={final}')
            n += 1
            if mismatch or pos[0] != len(events):
                # not a violation by itself (a refactored pool): counted,
                # reported in the evidence; the run is still judged
                diverged += 1
                if obs is not None and sched is not None:
                    violations += judge(stage, obs, err, sched, w, desc)
                continue
            replayed += 1
            if final != 'raised':
                violations.append({'key': 'model-does-not-raise',
                                   'msg': desc})
            violations += judge(stage, obs, err, sched, w, desc)
            keys.append(desc)
    return {'violations': violations[:40], 'keys': keys,
            'outcomes': [f'{stage.name}:tlc'], 'evaluations': n,
            'states': states, 'transitions': transitions, 'traces': replayed,
            'extra': {'tlc_fail_models': n_workers,
                      'tlc_fail_paths': paths_total,
                      'tlc_fail_diverged': diverged},
            'sample': {'kind': 'tlc with a failing worker',
                       'stage': stage.name, 'models': n_workers,
                       'maximal_behaviours': paths_total}}


def post_check(tot):
    ex = tot['extra']
    if ex.get('fault_injections', 0) < 300:
        return [{'key': 'vacuous', 'msg': f'{ex}'}]
    return []
