"""
C03 - confidence fields obey the documented arithmetic contract.

Same seams as C01; the space is the dedicated sweep of DESIGN.md section 4:
iterations x runners-up requested x {as is, flatten, drop each level} over
every tree shape in scope (which contains every placement of single-child
chains: top, middle, bottom), judged by mc.models.mapping.check_confidence.
"""
from mc import domains, scenario
from mc.checks import c01

PROPERTY = 'C03'
LEVEL = 'exploration'
RULE = ("every tree shape with <=L levels/<=N leaves x label scheme; per "
        "scenario the full product iterations {1,2,3,7} x n_runners_up "
        "{0,1,2,10} x {no reduction, flatten, drop each non-leaf level}, "
        "iteration counts at integer-type boundaries (255,256,257; thorough also 127,128 and, "
        "on every 24th shape, 65535/6) with unanimous and split votes, "
        "bootstrap factor 0.5 so votes split, plus tie scenarios (two "
        "identical leaves, constant leaf).  Every record of every output is "
        "checked.  distinct_nontrivial = distinct (shape, scheme, config) "
        "runs whose taxonomy has >= 2 leaves or levels")
ASSUMPTIONS = c01.ASSUMPTIONS + [
    "for a taxonomy in which no choice exists at any level the correlation "
    "value is unconstrained (any number in [-1,1])"]
CASE_TIMEOUT = 900


def bounds(tier):
    if tier == 'quick':
        return {'max_levels': 3, 'max_leaves': 4, 'schemes': ['D', 'E'],
                'iterations': [1, 2, 3, 7], 'n_runners_up': [0, 1, 2, 10],
                'n_cells': 4}
    return {'max_levels': 4, 'max_leaves': 5, 'schemes': ['B', 'D', 'E'],
            'iterations': [1, 2, 3, 7, 10], 'n_runners_up': [0, 1, 2, 3, 10],
            'n_cells': 5}


def cases(tier, seed):
    b = bounds(tier)
    for si, (L, n, shape) in enumerate(domains.shapes_up_to(
            b['max_levels'], b['max_leaves'])):
        for scheme in (b['schemes'] if tier == 'thorough'
                       else [b['schemes'][si % len(b['schemes'])]]):
            for extra in ({}, {'tie_leaves': True, 'const_leaf': True}):
                if extra and n < 2:
                    continue
                yield {'L': L, 'shape': shape, 'scheme': scheme,
                       'n_cells': b['n_cells'], 'seed': seed, 'd': 0,
                       'iterations': b['iterations'],
                       'n_runners_up': b['n_runners_up'],
                       'boundary_iterations': (
                           [255, 256, 257] if tier == 'quick'
                           else [127, 128, 255, 256, 257] + (
                               [65535, 65536] if si % 24 == 0 else [])),
                       'spec_extra': extra}


def space(case):
    L = case['L']
    reductions = [{}] + [{'drop_level': i} for i in range(L - 1)]
    if L > 1:
        reductions.append({'flatten': True})
    for it in case['iterations']:
        for nr in case['n_runners_up']:
            for red in reductions:
                cfg = dict(scenario.DEFAULT_CFG, iterations=it,
                           n_runners_up=nr, marker_mode='full', seam='cli')
                cfg.update(red)
                if case.get('spec_extra') and (it not in (1, 3)
                                               or nr not in (0, 2)):
                    continue
                yield cfg, ('iterations', 'n_runners_up') + tuple(red)
    # iteration counts at the boundaries of the integer types a vote
    # counter may use, with unanimous (factor 1) and split votes
    if not case.get('spec_extra'):
        for it in case.get('boundary_iterations', []):
            for factor in (1.0, 0.5):
                yield (dict(scenario.DEFAULT_CFG, iterations=it, factor=factor,
                            n_runners_up=2, marker_mode='full', seam='cli'),
                       ('iterations', 'factor'))


def evaluate(case, scratch):
    return c01.evaluate(case, scratch, want=('C03',), prop='C03',
                        space_fn=space)


post_check = c01.post_check
