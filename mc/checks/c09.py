"""
C09 - reference statistics equal direct computation and are additive.

Small-scope exhaustive enumeration on the real precompute stage: (P1) EVERY
labelling of n cells into <= 3 clusters or "unlabelled"; (P2) EVERY partition
of the cell list (all splits into <= 3 files x rows-at-a-time 1..n x workers
1..3) for labellings that scatter a cluster over files and chunks; deviations
over encoding, pre-normalised input, copy_data_over; (P4) every
order-preserving coarsening of a 3-level hierarchy, also in two steps; (P5)
merging of per-dataset files including ties.  Oracle: numpy on the dense
matrix, read through the file's own cluster_to_row / col_names tables.
"""
import itertools
import json

import anndata
import h5py
import numpy as np
import pandas as pd
import scipy.sparse as sp

from mc import domains

PROPERTY = 'C09'
LEVEL = 'exploration'
RULE = ("P1: all 4^n labellings (n=5; 6 thorough) of the cells into "
        "{c0,c1,c2,unlabelled}, 3 genes, values chosen so that CPM is exactly "
        "0, 0.5, 1, 2 or large; both seams (tree of cell names / obs "
        "columns); runs share one interpreter (state leaks show up).  P2: "
        "all compositions of n into <= 3 files x rows_at_a_time 1..n x "
        "n_processors 1..3 for 8 labellings.  P3: deviations {csr, csc, "
        "log2CPM input, copy_data_over, same file name in several directories, "
        "later files listing the genes in another order (refused or summed "
        "by name)}.  P4: all 6 coarsenings of a 3-level "
        "tree + all two-step routes, for every listing order of the class "
        "(2) and sub-class (6) tables x 4 listing orders of the leaf table "
        "(48 trees; the file's cluster_to_row follows the listing, the "
        "leaves are walked in their own order).  P5: merges of 2-3 files.  "
        "distinct_nontrivial = distinct (labelling, partition, flags) runs "
        "with >= 1 labelled cell")
ASSUMPTIONS = [
    "values range over the boundary alphabet only",
    "log2 values within 1e-6 of a CPM threshold are not judged (none occur "
    "in the alphabet)",
    "a data set none of whose cells is named by the taxonomy is outside "
    "the domain",
]
CASE_TIMEOUT = 900
CLUSTERS = ['c2_x', 'c10_x', 'c1_x']       # sorted order != this order


def bounds(tier):
    return {'n_cells': 5 if tier == 'quick' else 6, 'n_genes': 3}


def cases(tier, seed):
    n = bounds(tier)['n_cells']
    labs = list(itertools.product(range(4), repeat=n))
    step = 32
    for i in range(0, len(labs), step):
        yield {'kind': 'P1', 'labellings': labs[i:i + step], 'n': n,
               'seed': seed}
    scatter = [lab for lab in labs
               if len(set(lab)) == 4 and lab[0] == lab[-1]][:8]
    comps = [c for c in domains.compositions(n, 3)]
    for lab in scatter:
        for comp in comps:
            yield {'kind': 'P2', 'labelling': lab, 'files': comp, 'n': n,
                   'seed': seed}
    yield {'kind': 'P3', 'n': n, 'seed': seed}
    # P4: every listing order of the class and sub-class tables x 4 listing
    # orders of the leaf table (the order in which a coarser node is first
    # met while walking the leaves then differs from the order in which
    # the coarser level lists it)
    for order in range(2 * 6 * 4):
        yield {'kind': 'P4', 'seed': seed, 'order': order}
    yield {'kind': 'P5', 'seed': seed}


def make_matrix(n, seed):
    """raw counts whose CPM values hit 0, 0.5, 1, 2 and large exactly"""
    base = [
        [0, 1, 999999],          # CPM 0, 1, 999999
        [1, 0, 1999999],         # CPM 0.5, 0
        [2, 1, 999997],          # CPM 2, 1
        [5, 0, 5],               # CPM 5e5
        [0, 0, 0],               # empty cell
        [1, 1, 1999998],         # CPM 0.5, 0.5
        [3, 7, 999990],
    ]
    rows = [base[(i + seed) % len(base)] for i in range(n)]
    return np.array(rows, dtype=float)


def own_log2cpm(x):
    s = x.sum(axis=1)
    s = np.where(s > 0, s, 1.0)
    return np.log2(1.0 + 1.0e6 * x / s[:, None])


def expected_stats(x, cluster_of, clusters, prenormalised=False):
    """cluster_of: list (per cell) of cluster name or None"""
    lx = x if prenormalised else own_log2cpm(x)
    cpm = np.power(2.0, lx) - 1.0 if prenormalised else None
    if cpm is None:
        s = x.sum(axis=1)
        s = np.where(s > 0, s, 1.0)
        cpm = 1.0e6 * x / s[:, None]
    out = {}
    for c in clusters:
        idx = [i for i, k in enumerate(cluster_of) if k == c]
        sub = lx[idx] if idx else np.zeros((0, x.shape[1]))
        subc = cpm[idx] if idx else np.zeros((0, x.shape[1]))
        out[c] = {
            'n_cells': len(idx),
            'sum': sub.sum(axis=0),
            'sumsq': (sub ** 2).sum(axis=0),
            'gt0': (subc > 0).sum(axis=0),
            'gt1': (subc > 1.0 + 1e-9).sum(axis=0),
            'ge1': (subc >= 1.0 - 1e-9).sum(axis=0),
        }
    return out


def compare_file(path, exp, genes, label, tree_expect=None):
    msgs = []
    with h5py.File(path, 'r') as src:
        keys = set(src.keys())
        need = {'n_cells', 'sum', 'sumsq', 'gt0', 'gt1', 'ge1',
                'cluster_to_row', 'col_names', 'taxonomy_tree'}
        if not need <= keys:
            return [f'{label}: file lacks {sorted(need - keys)}']
        c2r = json.loads(src['cluster_to_row'][()].decode())
        cols = json.loads(src['col_names'][()].decode())
        tree = json.loads(src['taxonomy_tree'][()].decode())
        data = {k: src[k][()] for k in ('n_cells', 'sum', 'sumsq', 'gt0',
                                        'gt1', 'ge1')}
    if sorted(cols) != sorted(genes):
        return [f'{label}: col_names {cols}']
    gi = [cols.index(g) for g in genes]
    if set(c2r) != set(exp):
        return [f'{label}: cluster_to_row has {sorted(c2r)} expected '
                f'{sorted(exp)}']
    if sorted(c2r.values()) != list(range(len(exp))):
        msgs.append(f'{label}: cluster rows {c2r}')
    for c, e in exp.items():
        r = c2r[c]
        if int(data['n_cells'][r]) != e['n_cells']:
            msgs.append(f"{label}: n_cells[{c}]={data['n_cells'][r]} "
                        f"expected {e['n_cells']}")
        for k in ('gt0', 'gt1', 'ge1'):
            got = np.asarray(data[k][r])[gi]
            if got.tolist() != e[k].tolist():
                msgs.append(f'{label}: {k}[{c}]={got.tolist()} expected '
                            f'{e[k].tolist()}')
        for k in ('sum', 'sumsq'):
            got = np.asarray(data[k][r])[gi]
            if not np.allclose(got, e[k], rtol=1e-9, atol=1e-9):
                msgs.append(f'{label}: {k}[{c}]={got.tolist()} expected '
                            f'{e[k].tolist()}')
    if tree_expect is not None:
        if tree.get('hierarchy') != tree_expect['hierarchy']:
            msgs.append(f'{label}: stored hierarchy {tree.get("hierarchy")}')
        for lv in tree_expect['hierarchy'][:-1]:
            got = {k: sorted(v) for k, v in tree.get(lv, {}).items()}
            want = {k: sorted(v) for k, v in tree_expect[lv].items()}
            if got != want:
                msgs.append(f'{label}: stored taxonomy level {lv} differs')
    return msgs


def write_files(d, x, cell_ids, genes, comp, encoding, tag, obs_cols=None,
                normalised=False, same_name=False, gene_perm=False):
    paths = []
    a = 0
    data = own_log2cpm(x) if normalised else x
    for k, size in enumerate(comp):
        b_ = a + size
        xx = data[a:b_]
        if encoding == 'csr':
            xx = sp.csr_matrix(xx)
        elif encoding == 'csc':
            xx = sp.csc_matrix(xx)
        obs = pd.DataFrame(
            {k2: v[a:b_] for k2, v in (obs_cols or {}).items()},
            index=pd.Index(cell_ids[a:b_]))
        these = list(genes)
        if gene_perm and k > 0:
            # later files list the same genes in another column order
            order = [(j + k) % len(genes) for j in range(len(genes))]
            these = [genes[j] for j in order]
            xx = xx[:, order]
        ad = anndata.AnnData(X=xx, obs=obs,
                             var=pd.DataFrame(index=pd.Index(these)))
        if same_name:
            # per-dataset directories holding identically named files
            (d / f'ds_{tag}_{k}').mkdir(exist_ok=True)
            p = d / f'ds_{tag}_{k}' / 'expression.h5ad'
        else:
            p = d / f'ref_{tag}_{k}.h5ad'
        ad.write_h5ad(p)
        paths.append(p)
        a = b_
    return paths


def tree_for(cluster_of, cell_ids):
    """two-level tree class -> cluster with cell names at the leaves"""
    tree = {'hierarchy': ['class', 'cluster'],
            'class': {'A': [CLUSTERS[0], CLUSTERS[1]], 'B': [CLUSTERS[2]]},
            'cluster': {c: [cid for cid, k in zip(cell_ids, cluster_of)
                            if k == c] for c in CLUSTERS}}
    return tree


def evaluate(case, scratch):
    import warnings
    warnings.filterwarnings('ignore')
    from cell_type_mapper.taxonomy.taxonomy_tree import TaxonomyTree
    from cell_type_mapper.diff_exp.precompute_from_anndata import (
        precompute_summary_stats_from_h5ad_list_and_tree,
        precompute_summary_stats_from_h5ad)
    from mc import common
    d = scratch.new_dir('c09')
    tmp = scratch.new_dir('tmp')
    violations = []
    keys = []
    n_runs = 0
    genes = ['g_b', 'g_a', 'g_c']
    sample = None

    def viol(key, msgs):
        for m in msgs[:3]:
            violations.append({'key': key, 'msg': m})

    def run_tree(x, cell_ids, cluster_of, comp, rows, procs, encoding, tag,
                 normalised=False, copy=False, same_name=False,
                 gene_perm=False):
        nonlocal n_runs
        paths = write_files(d, x, cell_ids, genes, comp, encoding, tag,
                            normalised=normalised, same_name=same_name,
                            gene_perm=gene_perm)
        tree = tree_for(cluster_of, cell_ids)
        out = d / f'stats_{tag}.h5'
        label = (f'labels={cluster_of} files={comp} rows_at_a_time={rows} '
                 f'n_processors={procs} {encoding} normalised={normalised} '
                 f'copy_data_over={copy} same_basename={same_name}'
                 + (' later files list the genes in another order'
                    if gene_perm else ''))
        try:
            precompute_summary_stats_from_h5ad_list_and_tree(
                data_path_list=[str(p) for p in paths],
                taxonomy_tree=TaxonomyTree(data=tree), output_path=out,
                rows_at_a_time=rows,
                normalization='log2CPM' if normalised else 'raw',
                tmp_dir=tmp, n_processors=procs, copy_data_over=copy)
        except Exception as e:
            import traceback
            if gene_perm:
                # refusing files whose gene columns disagree is correct;
                # nothing may be left at the output path
                n_runs += 1
                keys.append(label + ' -> refused')
                if out.exists():
                    viol('refused-but-wrote-output', [label])
                    out.unlink()
                for p in paths:
                    p.unlink()
                return None
            viol('precompute-raised',
                 [f'{label}: {type(e).__name__}: {e}\n'
                  f'{traceback.format_exc()[-800:]}'])
            return None
        finally:
            common.close_leaked_h5()
        n_runs += 1
        exp = expected_stats(own_log2cpm(x) if normalised else x,
                             cluster_of, CLUSTERS, prenormalised=normalised)
        viol('statistics-wrong', compare_file(out, exp, genes, label, tree))
        left = [p.name for p in tmp.iterdir()]
        if left:
            viol('scratch-left-behind', [f'{label}: {left}'])
            for p in tmp.iterdir():
                import shutil
                shutil.rmtree(p, ignore_errors=True) if p.is_dir() \
                    else p.unlink()
        for p in paths:
            p.unlink()
        if any(k is not None for k in cluster_of):
            keys.append(label)
        return out

    n = case.get('n', 5)
    x = make_matrix(n, case['seed'])
    cell_ids = [f'cell_{(i * 3 + 2) % n}_{i}' for i in range(n)]

    if case['kind'] == 'P1':
        for li, lab in enumerate(case['labellings']):
            cluster_of = [None if k == 3 else CLUSTERS[k] for k in lab]
            if all(k is None for k in cluster_of):
                continue      # the taxonomy names no cell of the data
            out = run_tree(x, cell_ids, cluster_of, (n,), 2,
                           1 if li % 4 else 2, 'dense', f'p1_{li}')
            if out is not None:
                out.unlink()
            # obs-column seam (needs every cell labelled)
            if 3 not in lab:
                anc = {CLUSTERS[0]: 'A', CLUSTERS[1]: 'A', CLUSTERS[2]: 'B'}
                obs_cols = {'class': [anc[c] for c in cluster_of],
                            'cluster': list(cluster_of)}
                paths = write_files(d, x, cell_ids, genes, (n,), 'dense',
                                    f'p1o_{li}', obs_cols=obs_cols)
                out = d / f'stats_o_{li}.h5'
                label = f'obs-column seam labels={cluster_of}'
                try:
                    precompute_summary_stats_from_h5ad(
                        data_path=str(paths[0]),
                        column_hierarchy=['class', 'cluster'],
                        taxonomy_tree=None, output_path=out,
                        rows_at_a_time=2, normalization='raw', tmp_dir=tmp,
                        n_processors=1)
                    n_runs += 1
                    present = [c for c in CLUSTERS if c in cluster_of]
                    exp = expected_stats(x, cluster_of, present)
                    viol('statistics-wrong',
                         compare_file(out, exp, genes, label))
                    keys.append(label)
                    out.unlink()
                except Exception as e:
                    viol('precompute-raised',
                         [f'{label}: {type(e).__name__}: {e}'])
                common.close_leaked_h5()
                paths[0].unlink()
        sample = {'kind': 'P1', 'labellings': len(case['labellings']),
                  'matrix': x.tolist()}
    elif case['kind'] == 'P2':
        lab = case['labelling']
        cluster_of = [None if k == 3 else CLUSTERS[k] for k in lab]
        base = None
        for rows in range(1, n + 1):
            for procs in (1, 2, 3):
                out = run_tree(x, cell_ids, cluster_of, tuple(case['files']),
                               rows, procs, 'dense', f'p2_{rows}_{procs}')
                if out is None:
                    continue
                with h5py.File(out, 'r') as src:
                    dg = {k: src[k][()].tolist() for k in
                          ('n_cells', 'gt0', 'gt1', 'ge1')}
                if base is None:
                    base = dg
                elif dg != base:
                    viol('depends-on-partition',
                         [f'counts differ between partitions for labels '
                          f'{cluster_of} files {case["files"]} rows={rows} '
                          f'procs={procs}'])
                out.unlink()
        sample = {'kind': 'P2', 'labelling': cluster_of,
                  'files': case['files']}
    elif case['kind'] == 'P3':
        lab = (0, 1, 2, 0, 3, 1)[:n]
        cluster_of = [None if k == 3 else CLUSTERS[k] for k in lab]
        for enc in ('dense', 'csr', 'csc'):
            for normalised in (False, True):
                for copy in (False, True):
                    for procs in (1, 2):
                        out = run_tree(x, cell_ids, cluster_of, (2, n - 2),
                                       2, procs, enc,
                                       f'p3_{enc}_{normalised}_{copy}_'
                                       f'{procs}', normalised=normalised,
                                       copy=copy)
                        if out is not None:
                            out.unlink()
        # files with the same name in different directories
        for copy in (False, True):
            for procs in (1, 2):
                for comp in ((2, n - 2), (1, 2, n - 3)):
                    out = run_tree(x, cell_ids, cluster_of, comp, 2, procs,
                                   'dense', f'p3s_{copy}_{procs}_{len(comp)}',
                                   copy=copy, same_name=True)
                    if out is not None:
                        out.unlink()
        # the same genes in a different column order in later files: either
        # refused, or summed by gene NAME
        for enc in ('dense', 'csr'):
            for procs in (1, 2):
                for comp in ((2, n - 2), (1, 2, n - 3)):
                    out = run_tree(x, cell_ids, cluster_of, comp, 2, procs,
                                   enc, f'p3g_{enc}_{procs}_{len(comp)}',
                                   gene_perm=True)
                    if out is not None:
                        out.unlink()
        sample = {'kind': 'P3 deviations'}
    elif case['kind'] == 'P4':
        n_runs += coarsening(d, tmp, case, viol, keys)
        sample = {'kind': 'P4 coarsenings'}
    else:
        n_runs += merging(d, tmp, case, viol, keys)
        sample = {'kind': 'P5 merges'}
    return {'violations': violations[:40], 'keys': keys,
            'outcomes': [case['kind']], 'evaluations': n_runs,
            'sample': sample}


def coarsening(d, tmp, case, viol, keys):
    from cell_type_mapper.taxonomy.taxonomy_tree import TaxonomyTree
    from cell_type_mapper.diff_exp.precompute_from_anndata import (
        precompute_summary_stats_from_h5ad_list_and_tree)
    from cell_type_mapper.diff_exp.truncate_precompute import (
        truncate_precomputed_stats_file)
    genes = ['g_b', 'g_a', 'g_c']
    n = 8
    x = np.vstack([make_matrix(5, case['seed']),
                   make_matrix(3, case['seed'] + 2)])
    cell_ids = [f'cell_{i}' for i in range(n)]
    # names chosen so that neither listing nor sorted order is row order
    tree = {
        'hierarchy': ['class', 'sub', 'cluster'],
        'class': {'K2': ['s_2', 's_10'], 'K1': ['s_1']},
        'sub': {'s_2': ['cl_b', 'cl_a'], 's_10': ['cl_d'],
                's_1': ['cl_c', 'cl_e']},
        'cluster': {'cl_b': ['cell_0', 'cell_5'], 'cl_a': ['cell_1'],
                    'cl_d': ['cell_2', 'cell_6'], 'cl_c': ['cell_3'],
                    'cl_e': ['cell_4', 'cell_7']},
    }
    order = case.get('order', 0)
    k_perm = list(itertools.permutations(list(tree['class'])))[order % 2]
    s_perm = list(itertools.permutations(list(tree['sub'])))[(order // 2) % 6]
    leaves = list(tree['cluster'])
    l_perm = [leaves, leaves[::-1], sorted(leaves),
              leaves[2:] + leaves[:2]][(order // 12) % 4]
    tree['class'] = {k: tree['class'][k] for k in k_perm}
    tree['sub'] = {k: tree['sub'][k] for k in s_perm}
    tree['cluster'] = {k: tree['cluster'][k] for k in l_perm}
    order_tag = f'[listing order {order}: {list(k_perm)} {list(s_perm)} ' \
                f'{list(l_perm)}] '
    leaf_of = {}
    for leaf, cells in tree['cluster'].items():
        for c in cells:
            leaf_of[c] = leaf
    sub_of = {k: s for s, kids in tree['sub'].items() for k in kids}
    class_of = {s: c for c, kids in tree['class'].items() for s in kids}
    paths = write_files(d, x, cell_ids, genes, (3, 5), 'dense', 'p4')
    full = d / 'p4_full.h5'
    precompute_summary_stats_from_h5ad_list_and_tree(
        data_path_list=[str(p) for p in paths],
        taxonomy_tree=TaxonomyTree(data=tree), output_path=full,
        rows_at_a_time=3, normalization='raw', tmp_dir=tmp, n_processors=2)
    n_runs = 1

    def expected_for(hier):
        leaf_lv = hier[-1]
        def node(cell):
            leaf = leaf_of[cell]
            if leaf_lv == 'cluster':
                return leaf
            if leaf_lv == 'sub':
                return sub_of[leaf]
            return class_of[sub_of[leaf]]
        cluster_of = [node(c) for c in cell_ids]
        return expected_stats(x, cluster_of, sorted(set(cluster_of)))

    h = tree['hierarchy']
    subs = [list(c) for k in (1, 2) for c in itertools.combinations(h, k)]
    for new in subs:
        out = d / f'p4_{"_".join(new)}.h5'
        label = f'{order_tag}truncate {h} -> {new}'
        try:
            truncate_precomputed_stats_file(
                input_path=full, output_path=out, new_hierarchy=new)
            n_runs += 1
            viol('coarsening-wrong',
                 compare_file(out, expected_for(new), genes, label))
            keys.append(label)
        except Exception as e:
            viol('coarsening-raised', [f'{label}: {type(e).__name__}: {e}'])
            continue
        # second step from this file
        for new2 in [list(c) for k in range(1, len(new))
                     for c in itertools.combinations(new, k)]:
            out2 = d / f'p4_{"_".join(new)}__{"_".join(new2)}.h5'
            label2 = f'{order_tag}truncate {h} -> {new} -> {new2}'
            try:
                truncate_precomputed_stats_file(
                    input_path=out, output_path=out2, new_hierarchy=new2)
                n_runs += 1
                viol('coarsening-wrong',
                     compare_file(out2, expected_for(new2), genes, label2))
                keys.append(label2)
            except Exception as e:
                viol('coarsening-raised',
                     [f'{label2}: {type(e).__name__}: {e}'])
    return n_runs


def merging(d, tmp, case, viol, keys):
    from cell_type_mapper.taxonomy.taxonomy_tree import TaxonomyTree
    from cell_type_mapper.diff_exp.precompute_from_anndata import (
        precompute_summary_stats_from_h5ad_list_and_tree)
    from cell_type_mapper.diff_exp.precompute_utils import (
        merge_precompute_files)
    genes = ['g_b', 'g_a', 'g_c']
    n_runs = 0
    # three data sets over the same taxonomy with different cell counts
    datasets = []
    counts_list = [(2, 1, 0), (1, 1, 2), (2, 0, 2)]
    for di, counts in enumerate(counts_list):
        cluster_of = []
        for ci, k in enumerate(counts):
            cluster_of += [CLUSTERS[ci]] * k
        n = len(cluster_of)
        x = make_matrix(n, case['seed'] + di * 2 + 1) + di
        cell_ids = [f'd{di}_cell_{i}' for i in range(n)]
        paths = write_files(d, x, cell_ids, genes, (n,), 'dense', f'm{di}')
        tree = tree_for(cluster_of, cell_ids)
        out = d / f'merge_in_{di}.h5'
        precompute_summary_stats_from_h5ad_list_and_tree(
            data_path_list=[str(p) for p in paths],
            taxonomy_tree=TaxonomyTree(data=tree), output_path=out,
            rows_at_a_time=2, normalization='raw', tmp_dir=tmp,
            n_processors=1)
        n_runs += 1
        datasets.append((out, expected_stats(x, cluster_of, CLUSTERS)))
    for combo in ([0, 1], [1, 0], [0, 2], [1, 2], [0, 1, 2], [2, 1, 0]):
        out = d / f'merged_{"".join(map(str, combo))}.h5'
        label = f'merge of data sets {combo} (cells per cluster ' \
                f'{[counts_list[i] for i in combo]})'
        try:
            merge_precompute_files(
                precompute_path_list=[str(datasets[i][0]) for i in combo],
                output_path=out)
            n_runs += 1
        except Exception as e:
            viol('merge-raised', [f'{label}: {type(e).__name__}: {e}'])
            continue
        with h5py.File(out, 'r') as src:
            c2r = json.loads(src['cluster_to_row'][()].decode())
            data = {k: src[k][()] for k in ('n_cells', 'sum', 'sumsq',
                                            'gt0', 'gt1', 'ge1')}
        for c in CLUSTERS:
            best = max(datasets[i][1][c]['n_cells'] for i in combo)
            admissible = [i for i in combo
                          if datasets[i][1][c]['n_cells'] == best]
            r = c2r[c]
            ok = False
            for i in admissible:
                e = datasets[i][1][c]
                if int(data['n_cells'][r]) == e['n_cells'] and all(
                        np.allclose(data[k][r], e[k], rtol=1e-9, atol=1e-9)
                        for k in ('sum', 'sumsq', 'gt0', 'gt1', 'ge1')):
                    ok = True
            if not ok:
                viol('merge-wrong',
                     [f'{label}: cluster {c} row is not the row of (one of) '
                      f'the data set(s) with most cells {admissible}: '
                      f"n_cells={data['n_cells'][r]} sum={data['sum'][r]}"])
        keys.append(label)
    return n_runs


def post_check(tot):
    if len(tot['outcomes']) < 5:
        return [{'key': 'vacuous', 'msg': f"parts run {tot['outcomes']}"}]
    return []
