"""
C19 - runs leave inputs untouched, scratch space empty, and do not interfere.

(a) Explicit-state BFS over HISTORIES of operations that share one scratch
    directory and one output directory: successful mapping runs (several
    flavours), failing runs of each class (including an injected worker
    failure), and the planting of a stale file / directory under every name
    pattern the stages use.  State = canonical listing (random suffixes
    masked) + digests of scratch and output directories.  After every
    operation: inputs byte-identical, scratch listing == planted set (also
    after an error), no file anywhere but the requested locations, and the
    result digest of a successful run equal to the clean-history baseline.
(b) hygiene of the other stages (statistics, reference markers, p-value
    mask, query markers, transposition, validation): scratch empty after
    return, inputs untouched, output only where requested, with and without
    stale files planted.
(c) two concurrent mapping runs sharing scratch and output directories,
    interleaved at the granularity of worker dispatch (one run atomically
    inside each scheduling point of the other), and
(d) two mapping runs in two threads under a cooperative filesystem scheduler
    (mc/fsched.py): every interleaving with <= 1 (thorough 2) preemptions,
    switch points before every filesystem-mutating call.
"""
import hashlib
import json
import os
import pathlib
import re
import shutil
import tempfile

from mc import refdata, scenario, vproc

PROPERTY = 'C19'
LEVEL = 'model_checking'
EXHAUSTIVE = True
RULE = ("BFS over histories of depth <= D over {ok, ok with result_dir "
        "buffers, ok from a CSC query, ok cloud-safe with a summary file, "
        "run failing on a missing marker table / negative raw value / "
        "killed worker / truncated query / unwritable output path, plant a "
        "stale entry "
        "under each of 9 name patterns}; canonical state = masked listings + "
        "digests of the shared scratch and output directories; every state "
        "checked.  Other stages: one run clean and one after planting.  "
        "distinct_nontrivial = distinct histories of >= 2 operations")
ASSUMPTIONS = [
    "fs-interleaved runs execute their workers inline (same interpreter); "
    "switch points are python-level filesystem mutations (mkdtemp, mkstemp, "
    "open for writing, copy/move/rmtree, unlink/rmdir/mkdir/rename), not "
    "HDF5-internal writes; preemption bound 1 (quick) / 2 (thorough)",
    "a stale complete output file from an earlier run may be overwritten "
    "(it is at a requested location)",
]
CASE_TIMEOUT = 1500

PLANTS = {
    'result_buffer': ('dir', 'result_buffer_stale0',
                      {'results_buffer_zz/0_2_assignment.json':
                       '[{"cell_id": "ghost"}]'}),
    'results_buffer': ('dir', 'results_buffer_stale1',
                       {'0_2_assignment.json': '[{"cell_id": "ghost"}]'}),
    'file_tracker': ('dir', 'file_tracker_stale2', {'query_x.h5ad': 'junk'}),
    'anndata_iterator': ('dir', 'anndata_iterator_stale3',
                         {'q.h5ad_as_csr_x.h5': 'junk'}),
    'query_marker': ('file', 'query_marker_stale4.h5', 'junk'),
    'mapper_dir': ('dir', 'cell_type_mapper_20200101000000_stale5',
                   {'query_marker_x.h5': 'junk'}),
    'assignment_json': ('file', '0_2_assignment.json',
                        '[{"cell_id": "ghost"}]'),
    'precompute_buffer': ('file', 'precomputation_buffer_stale6.h5', 'junk'),
    'transpose': ('file', 'transpose_0_4_stale7.h5', 'junk'),
}
RUNS = ['ok', 'ok_result_dir', 'ok_csc', 'ok_summary', 'fail_markers',
        'fail_negative', 'fail_worker', 'fail_corrupt_query',
        'fail_unwritable_output', 'fail_csc_no_shape']


def bounds(tier):
    return {'depth': 2 if tier == 'quick' else 3, 'runs': RUNS,
            'plants': sorted(PLANTS)}


def cases(tier, seed):
    b = bounds(tier)
    # one case per first operation keeps the BFS parallel
    for first in RUNS + [f'plant:{p}' for p in sorted(PLANTS)]:
        yield {'kind': 'history', 'first': first, 'depth': b['depth'],
               'seed': seed}
    for stage in ('precompute', 'precompute_copy', 'refmarkers', 'pmask',
                  'frompmask', 'qmarkers', 'transpose', 'validate'):
        yield {'kind': 'stage', 'stage': stage, 'seed': seed}
    yield {'kind': 'concurrent', 'seed': seed, 'tier': tier}
    yield {'kind': 'trackers', 'seed': seed}
    for shared in ('tmp_dir', 'result_dir'):
        for same_input in (False, True):
            yield {'kind': 'fs-interleave', 'shared': shared,
                   'same_input': same_input, 'seed': seed,
                   'bound': 1 if tier == 'quick' else 2}


# ----------------------------------------------------------- observation

SUFFIX = re.compile(r'(_)[a-z0-9_]{8}(\.[a-z0-9]+)?$')


def mask(name):
    return SUFFIX.sub(r'\1########\2', name)


def sha(path):
    h = hashlib.sha256()
    with open(path, 'rb') as src:
        for blk in iter(lambda: src.read(1 << 20), b''):
            h.update(blk)
    return h.hexdigest()


def snapshot(d):
    """{relative path: 'dir' | sha256}"""
    d = pathlib.Path(d)
    out = {}
    for root, dirs, files in os.walk(d):
        for n in dirs:
            out[str((pathlib.Path(root) / n).relative_to(d))] = 'dir'
        for n in files:
            p = pathlib.Path(root) / n
            out[str(p.relative_to(d))] = sha(p)
    return out


class World(object):
    """shared directories + inputs of one history"""

    def __init__(self, scratch, seed):
        self.base = scratch.new_dir('world')
        self.in_dir = self.base / 'inputs'
        self.scr = self.base / 'scratch'
        self.out = self.base / 'output'
        self.res = self.base / 'result_dir'
        self.default_tmp = self.base / 'default_tmp'
        self.cwd = self.base / 'cwd'
        for d in (self.scr, self.out, self.res, self.default_tmp, self.cwd):
            d.mkdir(parents=True)
        spec = {'L': 2, 'shape': (((), ()), ((),)), 'scheme': 'B',
                'n_cells': 4, 'seed': seed, 'marker_mode': 'full'}
        self.b = scenario.build(spec, self.in_dir)
        self.q_raw = scenario.write_query(self.b, 'raw', 'dense')
        self.q_csc = scenario.write_query(self.b, 'raw', 'csc')
        import numpy as np
        m = np.array(self.b.raw)
        m[1, 1] = -3.0
        self.q_neg = scenario.write_query(self.b, 'raw', 'dense',
                                          name='neg.h5ad', matrix=m)
        raw = pathlib.Path(self.q_raw).read_bytes()
        self.q_trunc = self.in_dir / 'truncated.h5ad'
        self.q_trunc.write_bytes(raw[:len(raw) // 2])
        # a CSC query whose transcription to CSR cannot be done
        self.q_csc_bad = self.in_dir / 'csc_no_shape.h5ad'
        shutil.copy(self.q_csc, self.q_csc_bad)
        import h5py
        with h5py.File(self.q_csc_bad, 'a') as f:
            for k in ('shape', 'h5sparse_shape'):
                if k in f['X'].attrs:
                    del f['X'].attrs[k]
        self.inputs = snapshot(self.in_dir)
        self.planted_scr = {}
        self.planted_res = {}
        self.n_ops = 0

    def plant(self, name):
        kind, fname, content = PLANTS[name]
        for target, book in ((self.scr, self.planted_scr),
                             (self.res, self.planted_res)):
            p = target / fname
            if p.exists():
                continue
            if kind == 'file':
                p.write_text(content)
            else:
                p.mkdir()
                for rel, txt in content.items():
                    (p / rel).parent.mkdir(parents=True, exist_ok=True)
                    (p / rel).write_text(txt)
            book.update({k: v for k, v in snapshot(target).items()
                         if k == fname or k.startswith(fname + '/')})

    def config_paths(self, config, flavour):
        config['extended_result_path'] = str(self.out / 'out.json')
        config['csv_result_path'] = str(self.out / 'out.csv')
        config['hdf5_result_path'] = str(self.out / 'out.h5')
        config['log_path'] = str(self.out / 'log.txt')
        if flavour in ('ok_result_dir', 'fail_csc_no_shape'):
            config['tmp_dir'] = None
            config['extended_result_dir'] = str(self.res)
        else:
            config['tmp_dir'] = str(self.scr)
            config['extended_result_dir'] = None

    def run(self, flavour):
        self.n_ops += 1
        cfg = {'chunk_size': 2, 'n_processors': 2, 'factor': 0.5,
               'iterations': 3}
        qpath = self.q_raw
        faults = None
        extra = None
        if flavour == 'ok_csc':
            qpath = self.q_csc
            cfg['encoding'] = 'csc'
        elif flavour == 'fail_markers':
            def extra(c):
                c['query_markers']['serialized_lookup'] = str(
                    self.in_dir / 'no_such_markers.json')
        elif flavour == 'fail_negative':
            qpath = self.q_neg
        elif flavour == 'fail_worker':
            faults = {1: ('kill', 'after')}
        elif flavour == 'fail_corrupt_query':
            # a truncated copy of the query: the run fails AND the output
            # stage of the run (which re-reads the query) fails
            qpath = self.q_trunc
        elif flavour == 'fail_csc_no_shape':
            # no scratch directory of its own: whatever the row iterator
            # creates lands in the default temporary directory
            qpath = self.q_csc_bad
            cfg['encoding'] = 'csc'
        elif flavour == 'fail_unwritable_output':
            def extra(c):
                c['extended_result_path'] = str(
                    self.out / 'no_such_dir' / 'out.json')
        elif flavour == 'ok_summary':
            cfg['cloud_safe'] = True

            def extra(c):
                c['summary_metadata_path'] = str(self.out / 'summary.json')

        def edit(config):
            self.config_paths(config, flavour)
            if extra is not None:
                extra(config)

        run_dir = self.base / f'cfg_{self.n_ops}'
        old_tmp = tempfile.tempdir
        old_cwd = os.getcwd()
        tempfile.tempdir = str(self.default_tmp)
        os.chdir(self.cwd)
        try:
            if faults is None:
                o = scenario.run_mapping(self.b, cfg, run_dir,
                                         query_path=qpath, config_edit=edit)
            else:
                o, err, sched = vproc.run_under(
                    lambda: scenario.run_mapping(
                        self.b, cfg, run_dir, query_path=qpath,
                        config_edit=edit),
                    script=[], faults=faults, child_timeout=20.0)
        finally:
            tempfile.tempdir = old_tmp
            os.chdir(old_cwd)
            from mc import common
            common.close_leaked_h5()
        shutil.rmtree(run_dir, ignore_errors=True)
        return o

    def check(self, what):
        """invariants after an operation; -> list of (key, msg)"""
        out = []
        now = snapshot(self.in_dir)
        if now != self.inputs:
            diff = sorted(set(now.items()) ^ set(self.inputs.items()))[:3]
            out.append(('input-modified', f'{what}: inputs changed {diff}'))
        for label, d, planted in (('scratch', self.scr, self.planted_scr),
                                  ('result_dir', self.res,
                                   self.planted_res)):
            got = snapshot(d)
            if got != planted:
                extra = sorted(set(got) - set(planted))
                missing = sorted(set(planted) - set(got))
                changed = sorted(k for k in set(got) & set(planted)
                                 if got[k] != planted[k])
                key = 'scratch-left-behind' if extra else \
                    'stale-file-disturbed'
                out.append((key, f'{what}: {label} directory: left behind '
                            f'{[mask(x) for x in extra]}, removed '
                            f'{missing}, altered {changed}'))
        for label, d in (('default temp dir', self.default_tmp),
                         ('working directory', self.cwd)):
            got = snapshot(d)
            if got:
                out.append(('file-outside-requested-locations',
                            f'{what}: {label} contains {sorted(got)}'))
        allowed = {'out.json', 'out.csv', 'out.h5', 'log.txt',
                   'summary.json'}
        got = set(snapshot(self.out))
        if got - allowed:
            out.append(('file-outside-requested-locations',
                        f'{what}: output directory contains '
                        f'{sorted(got - allowed)}'))
        return out

    def canon(self):
        return json.dumps([sorted(mask(k) for k in snapshot(self.scr)),
                           sorted(mask(k) for k in snapshot(self.res)),
                           sorted(snapshot(self.out))])


def result_digest(o):
    blob = o.blob or {}
    return refdata.canon({'results': blob.get('results'),
                          'marker_genes': blob.get('marker_genes')})


def classify(key, msg, hist):
    if key == 'scratch-left-behind' and 'result_buffer_' in msg and any(
            h.startswith('fail') for h in hist):
        return 'F4:result-buffer-left-after-failed-mapping'
    return key


def apply_history(hist, scratch, seed, baseline):
    """replay a history on a fresh world; -> (world, violations)"""
    w = World(scratch, seed)
    violations = []
    for i, op in enumerate(hist):
        what = f'history {hist[:i + 1]}'
        if op.startswith('plant:'):
            w.plant(op.split(':', 1)[1])
            continue
        o = w.run(op)
        should_fail = op.startswith('fail')
        if o is None:
            violations.append(('harness', f'{what}: scheduler error'))
            continue
        if o.ok == should_fail:
            violations.append((
                'result-depends-on-history' if not o.ok else 'harness',
                f'{what}: run {"failed" if not o.ok else "succeeded"} '
                f'unexpectedly: {o.error}\n{(o.tb or "")[-1200:]}'))
        if o.ok and baseline.get(op) is not None and \
                result_digest(o) != baseline[op]:
            violations.append(('result-depends-on-history',
                               f'{what}: result differs from the run on '
                               'clean directories'))
        for key, msg in w.check(what):
            violations.append((classify(key, msg, hist[:i + 1]), msg))
    return w, violations


def evaluate_fs_interleave(case, scratch):
    """
    Two mapping runs in two threads of this interpreter under the
    cooperative filesystem scheduler (mc/fsched.py): every interleaving with
    at most `bound` preemptions, switch points before every
    filesystem-mutating call.
    """
    from mc import explore, fsched, common
    seed = case['seed']
    w = World(scratch, seed)
    if case['same_input']:
        bb = w.b
    else:
        spec_b = {'L': 2, 'shape': (((), ()), ((),)), 'scheme': 'B',
                  'n_cells': 3, 'seed': seed + 1, 'marker_mode': 'full'}
        bb = scenario.build(spec_b, w.base / 'inputs_b')
    for enc in ('dense', 'csc'):
        scenario.write_query(bb, 'raw', enc)
    w.inputs = snapshot(w.in_dir)
    inputs_b = snapshot(bb.dir)
    out = {0: w.base / 'out_A', 1: w.base / 'out_B'}
    for d in out.values():
        d.mkdir()
    counter = [0]

    def make_run(idx, b):
        def fn():
            counter[0] += 1
            run_dir = out[idx] / f'r{counter[0]}'

            def edit(config):
                if case['shared'] == 'tmp_dir':
                    config['tmp_dir'] = str(w.scr)
                    config['extended_result_dir'] = None
                else:
                    config['tmp_dir'] = None
                    config['extended_result_dir'] = str(w.res)
            return scenario.run_mapping(
                b, {'chunk_size': 2, 'n_processors': 2, 'factor': 0.5,
                    'iterations': 3, 'encoding': ['dense', 'csc'][idx]},
                run_dir, config_edit=edit)
        return fn

    runs = [make_run(0, w.b), make_run(1, bb)]
    # solo baselines (under the same scheduler, no preemption possible)
    base = []
    for i in (0, 1):
        sch = fsched.FsScheduler([])
        res, errs = sch.run([runs[i]])
        common.close_leaked_h5()
        if errs[0] or res[0] is None or not res[0].ok:
            return {'violations': [{
                'key': 'harness', 'msg': f'solo run {i} failed: {errs[0]} '
                                         f'{res[0] and res[0].error}'}]}
        base.append(result_digest(res[0]))
    violations = []
    keys = []
    outcomes = set()

    def run(prefix):
        sch = fsched.FsScheduler(prefix)
        res, errs = sch.run(runs)
        common.close_leaked_h5()
        return (res, errs, sch), sch.options

    def on_exec(choices, obs):
        res, errs, sch = obs
        switches = [(i, sch.labels[i]) for i, c in enumerate(choices) if c]
        what = (f'two runs sharing {case["shared"]} (same input: '
                f'{case["same_input"]}), preempted at {switches}')
        if sch.stuck:
            violations.append({'key': 'concurrent-run-interferes',
                               'msg': f'{what}: a run never finished'})
        for i in (0, 1):
            o = res[i]
            if errs[i] or o is None or not o.ok:
                violations.append({
                    'key': 'concurrent-run-interferes',
                    'msg': f'{what}: run {"AB"[i]} failed: '
                           f'{errs[i] or (o and o.error)}\n'
                           f'{(o.tb if o else "") or ""}'[-1200:]})
            elif result_digest(o) != base[i]:
                violations.append({
                    'key': 'concurrent-run-interferes',
                    'msg': f'{what}: result of run {"AB"[i]} differs from '
                           'its solo result'})
        for key, msg in w.check(what):
            violations.append({'key': key, 'msg': msg})
        if snapshot(bb.dir) != inputs_b:
            violations.append({'key': 'input-modified',
                               'msg': f'{what}: inputs of run B changed'})
        keys.append(str(switches))
        outcomes.add(str(len(sch.options)))

    stats = explore.explore(run, case['bound'], on_exec,
                            max_executions=20000)
    return {'violations': violations[:30], 'keys': keys,
            'outcomes': sorted(outcomes), 'evaluations': stats['executions'],
            'states': stats['max_points'],
            'transitions': stats['choice_points'],
            'traces': stats['executions'],
            'extra': {'fs_interleavings': stats['executions'],
                      'fs_switch_points_max': stats['max_points'],
                      'fs_capped': int(stats['capped'])},
            'sample': {'kind': 'fs-interleaved concurrent runs',
                       'shared': case['shared'],
                       'preemption_bound': case['bound'],
                       'interleavings': stats['executions'],
                       'switch_points': stats['max_points']}}


def evaluate(case, scratch):
    if case['kind'] == 'fs-interleave':
        return evaluate_fs_interleave(case, scratch)
    if case['kind'] == 'stage':
        return evaluate_stage(case, scratch)
    if case['kind'] == 'concurrent':
        return evaluate_concurrent(case, scratch)
    if case['kind'] == 'trackers':
        return evaluate_trackers(case, scratch)
    seed = case['seed']
    # clean-history baselines
    baseline = {}
    for op in RUNS:
        if op.startswith('ok'):
            w0 = World(scratch, seed)
            o = w0.run(op)
            baseline[op] = result_digest(o) if (o is not None and o.ok) \
                else None
    ops = RUNS + [f'plant:{p}' for p in sorted(PLANTS)]
    violations = []
    keys = []
    seen = set()
    states = transitions = traces = 0
    frontier = [[case['first']]]
    sample = None
    for depth in range(1, case['depth'] + 1):
        nxt = []
        for hist in frontier:
            w, v = apply_history(hist, scratch, seed, baseline)
            traces += 1
            transitions += len(hist)
            for key, msg in v[:4]:
                violations.append({'key': key, 'msg': msg})
            c = w.canon()
            if len(hist) >= 2:
                keys.append(json.dumps(hist))
            if sample is None and len(hist) == case['depth']:
                sample = {'history': hist,
                          'scratch_after': sorted(snapshot(w.scr))[:6]}
            shutil.rmtree(w.base, ignore_errors=True)
            if (c, hist[-1].startswith('plant')) in seen and depth > 1:
                pass
            seen.add((c, hist[-1].startswith('plant')))
            states += 1
            if depth < case['depth']:
                for op in ops:
                    if op.startswith('plant:') and op in hist:
                        continue
                    if hist[-1].startswith('plant:') and \
                            op.startswith('plant:') and op < hist[-1]:
                        continue     # plants commute: one order only
                    nxt.append(hist + [op])
        frontier = nxt
    return {'violations': violations[:40], 'keys': keys,
            'outcomes': sorted({s[0] for s in seen})[:50],
            'evaluations': traces, 'states': len(seen),
            'transitions': transitions, 'traces': traces, 'sample': sample}


# --------------------------------------------------------- other stages

def evaluate_stage(case, scratch):
    from mc import stages
    name = {'precompute': 'precompute_3',
            'precompute_copy': 'precompute_2_copy',
            'refmarkers': 'refmarkers_2',
            'pmask': 'pmask_4x2', 'frompmask': 'frompmask_2',
            'qmarkers': 'qmarkers_2', 'transpose': 'transpose_3'}.get(
        case['stage'])
    violations = []
    keys = []
    n = 0
    if case['stage'] == 'validate':
        return evaluate_validate(case, scratch)
    st = stages.stage_catalog('quick')[name]
    st.prepare(scratch, case['seed'])
    in_before = snapshot(st.ref.dir) if hasattr(st, 'ref') else {}
    aux = {}
    for attr in ('stats', 'mask', 'refm', 'src'):
        if hasattr(st, attr):
            aux[attr] = sha(getattr(st, attr))
    base = None
    for planted in (False, True):
        if planted:
            for pname in sorted(PLANTS):
                kind, fname, content = PLANTS[pname]
                p = st.tmp / fname
                if kind == 'file':
                    p.write_text(content)
                else:
                    p.mkdir(exist_ok=True)
                    for rel, txt in content.items():
                        (p / rel).parent.mkdir(parents=True, exist_ok=True)
                        (p / rel).write_text(txt)
        before = snapshot(st.tmp)
        default_tmp = scratch.new_dir('dtmp')
        old_tmp = tempfile.tempdir
        tempfile.tempdir = str(default_tmp)
        try:
            obs = st.run('s')
        finally:
            tempfile.tempdir = old_tmp
            from mc import common
            common.close_leaked_h5()
        n += 1
        what = f'{name} (stale files planted: {planted})'
        if obs.get('error'):
            violations.append({'key': 'stage-failed',
                               'msg': f"{what}: {obs['error']}\n"
                                      f"{obs.get('tb')}"})
            continue
        after = snapshot(st.tmp)
        if after != before:
            extra = sorted(set(after) - set(before))
            gone = sorted(set(before) - set(after))
            violations.append({
                'key': 'scratch-left-behind' if extra
                else 'stale-file-disturbed',
                'msg': f'{what}: scratch left {[mask(x) for x in extra]} '
                       f'removed {gone}'})
        if snapshot(default_tmp):
            violations.append({
                'key': 'file-outside-requested-locations',
                'msg': f'{what}: default temp dir got '
                       f'{sorted(snapshot(default_tmp))}'})
        if hasattr(st, 'ref') and snapshot(st.ref.dir) != in_before:
            violations.append({'key': 'input-modified',
                               'msg': f'{what}: reference files changed'})
        for attr, dg in aux.items():
            if sha(getattr(st, attr)) != dg:
                violations.append({'key': 'input-modified',
                                   'msg': f'{what}: input {attr} changed'})
        outs = sorted(snapshot(obs['out_dir']))
        if case['stage'] != 'qmarkers' and outs != ['out.h5']:
            violations.append({
                'key': 'file-outside-requested-locations',
                'msg': f'{what}: output directory holds {outs}'})
        dg = refdata.canon(obs['digest'])
        if base is None:
            base = dg
        elif dg != base:
            violations.append({'key': 'result-depends-on-history',
                               'msg': f'{what}: result differs from the '
                                      'run with an empty scratch directory'})
        keys.append(what)
    return {'violations': violations, 'keys': keys, 'evaluations': n,
            'outcomes': [name], 'states': 2, 'transitions': 2, 'traces': n,
            'sample': {'stage': name, 'runs': n}}


def evaluate_validate(case, scratch):
    import numpy as np
    from mc import sparsegen
    from cell_type_mapper.validation.validate_h5ad import validate_h5ad
    from cell_type_mapper.gene_id.gene_id_mapper import GeneIdMapper
    violations = []
    keys = []
    d = scratch.new_dir('val')
    n = 0
    for enc in ('dense', 'csr', 'csc'):
        for needs_change in (True, False):
            src = d / f'in_{enc}_{needs_change}.h5ad'
            mat = np.array([[1.0, 0.0, 2.5 if needs_change else 2.0],
                            [0.0, 3.0, 0.0]])
            genes = (['ENSMUSG00000000001', 'symb1', 'zz'] if needs_change
                     else ['ENSMUSG00000000001', 'ENSMUSG00000000002',
                           'ENSMUSG00000000003'])
            sparsegen.write_h5ad(src, mat, enc, var_ids=genes)
            before = sha(src)
            out_dir = d / f'out_{enc}_{needs_change}'
            tmp = d / f'tmp_{enc}_{needs_change}'
            out_dir.mkdir()
            tmp.mkdir()
            mapper = GeneIdMapper(data={'symb1': 'ENSMUSG00000000009'})
            try:
                res = validate_h5ad(
                    h5ad_path=src, output_dir=out_dir,
                    gene_id_mapper=mapper, tmp_dir=tmp, round_to_int=True)
            except Exception as e:
                violations.append({'key': 'stage-failed',
                                   'msg': f'validate {enc}: '
                                          f'{type(e).__name__}: {e}'})
                continue
            n += 1
            what = f'validate_h5ad {enc} needs_change={needs_change}'
            if sha(src) != before:
                violations.append({'key': 'input-modified',
                                   'msg': f'{what}: input bytes changed'})
            if snapshot(tmp):
                violations.append({
                    'key': 'scratch-left-behind',
                    'msg': f'{what}: scratch left '
                           f'{[mask(x) for x in snapshot(tmp)]}'})
            outs = sorted(snapshot(out_dir))
            path = res[0] if isinstance(res, tuple) else res
            if path is None and outs:
                violations.append({
                    'key': 'file-outside-requested-locations',
                    'msg': f'{what}: nothing to change, yet {outs} written'})
            if path is not None and len(outs) != 1:
                violations.append({
                    'key': 'file-outside-requested-locations',
                    'msg': f'{what}: output directory holds {outs}'})
            keys.append(what)
    # ---- histories of two validations writing to ONE fixed output path:
    # what is there afterwards (and what is returned) must be what the
    # second validation alone produces in a fresh directory
    from cell_type_mapper.cli.cli_log import CommandLog
    import itertools

    def make_input(name, needs_change):
        src = d / name
        mat = np.array([[1.0, 0.0, 2.5 if needs_change else 2.0],
                        [0.0, 3.0, 0.0]])
        genes = (['ENSMUSG00000000001', 'symb1', 'zz'] if needs_change
                 else ['ENSMUSG00000000001', 'ENSMUSG00000000002',
                       'ENSMUSG00000000003'])
        sparsegen.write_h5ad(src, mat, 'dense', var_ids=genes)
        return src

    def one(src, out_path, tmp, with_log):
        mapper = GeneIdMapper(data={'symb1': 'ENSMUSG00000000009'})
        res = validate_h5ad(h5ad_path=src, gene_id_mapper=mapper,
                            tmp_dir=tmp, round_to_int=True,
                            valid_h5ad_path=out_path,
                            log=CommandLog() if with_log else None)
        path = res[0] if isinstance(res, tuple) else res
        listing = sorted(snapshot(out_path.parent))
        content = None
        if out_path.exists():
            try:
                content = sparsegen.read_x_dense(out_path).tolist()
            except Exception:
                content = 'unreadable'
        return (path is None, listing, content)

    hi = 0
    for first, second, with_log in itertools.product(
            (True, False, 'plant'), (True, False), (True, False)):
        hi += 1
        what = (f'validate_h5ad to a fixed valid_h5ad_path: first '
                f'{"a planted stale file" if first == "plant" else "an input with needs_change=" + str(first)}'
                f', then needs_change={second}, log object '
                f'{"given" if with_log else "None"}')
        try:
            shared = d / f'hist_{hi}'
            fresh = d / f'fresh_{hi}'
            tmp = d / f'htmp_{hi}'
            for x in (shared, fresh, tmp):
                x.mkdir()
            if first == 'plant':
                (shared / 'validated.h5ad').write_text('stale')
            else:
                one(make_input(f'h{hi}_a.h5ad', first),
                    shared / 'validated.h5ad', tmp, with_log)
            src2 = make_input(f'h{hi}_b.h5ad', second)
            got = one(src2, shared / 'validated.h5ad', tmp, with_log)
            exp = one(src2, fresh / 'validated.h5ad', tmp, with_log)
        except Exception as e:
            violations.append({'key': 'stage-failed',
                               'msg': f'{what}: {type(e).__name__}: {e}'})
            continue
        finally:
            from mc import common
            common.close_leaked_h5()
        n += 2
        if got != exp:
            violations.append({
                'key': 'result-depends-on-stale-files',
                'msg': f'{what}: (no output returned, listing, X) = {got} '
                       f'but in a fresh directory {exp}'})
        if snapshot(tmp):
            violations.append({'key': 'scratch-left-behind',
                               'msg': f'{what}: scratch left '
                                      f'{sorted(snapshot(tmp))}'})
        keys.append(what)
    return {'violations': violations, 'keys': keys, 'evaluations': n,
            'outcomes': ['validate'], 'states': n, 'transitions': n,
            'traces': n, 'sample': {'stage': 'validate_h5ad', 'runs': n}}


# ------------------------------------------------------ concurrent runs

def evaluate_concurrent(case, scratch):
    """
    Two mapping runs A and B share scratch and output-buffer directories.
    B is executed entirely inside one of A's scheduling points (each poll of
    A's pool is a point at which the other run may have made any amount of
    progress, including running to completion and cleaning up), for EVERY
    such point: the coarse-grained interleavings "B runs between A's k-th
    and k+1-th process-level step".
    """
    seed = case['seed']
    violations = []
    keys = []
    w = World(scratch, seed)
    # solo baselines
    a0 = w.run('ok')
    base_a = result_digest(a0)
    spec_b = {'L': 2, 'shape': (((), ()), ((),)), 'scheme': 'B',
              'n_cells': 3, 'seed': seed + 1, 'marker_mode': 'full'}
    bb = scenario.build(spec_b, w.base / 'inputs_b')
    out_b = w.base / 'output_b'
    out_b.mkdir()

    def run_b(tag):
        def edit(config):
            config['tmp_dir'] = str(w.scr)
            config['extended_result_dir'] = None
        return scenario.run_mapping(
            bb, {'chunk_size': 2, 'n_processors': 1, 'factor': 0.5,
                 'iterations': 3}, out_b / tag, config_edit=edit)

    b0 = run_b('solo')
    base_b = result_digest(b0)
    # how many scheduling points does A have?
    probe = []

    def count_obs(ev):
        probe.append(ev)
    cfg = {'chunk_size': 1, 'n_processors': 2, 'factor': 0.5,
           'iterations': 3}

    def run_a():
        def edit(config):
            w.config_paths(config, 'ok')
        return scenario.run_mapping(w.b, cfg, w.base / 'cfg_a',
                                    query_path=w.q_raw, config_edit=edit)
    o, err, sched = vproc.run_under(run_a, script=[], observer=count_obs)
    n_points = len(probe)
    if o is None or not o.ok:
        return {'violations': [{'key': 'harness',
                                'msg': f'solo run A failed: {err}'}]}
    base_a = result_digest(o)
    n = 0
    for k in range(n_points):
        seen = [0]
        result_b = {}

        def observer(ev, k=k, seen=seen, result_b=result_b):
            if seen[0] == k:
                # B runs to completion right here, with real processes
                import multiprocessing
                saved = multiprocessing.Process
                multiprocessing.Process = vproc._ORIG['process']
                try:
                    result_b['o'] = run_b(f'at_{k}')
                finally:
                    multiprocessing.Process = saved
            seen[0] += 1
        o, err, sched = vproc.run_under(run_a, script=[], observer=observer)
        from mc import common
        common.close_leaked_h5()
        n += 1
        what = f'run B executed inside scheduling point {k}/{n_points} of A'
        ob = result_b.get('o')
        if o is None or not o.ok:
            violations.append({
                'key': 'concurrent-run-interferes',
                'msg': f'{what}: A failed: {err or (o and o.error)}\n'
                       f'{(o.tb if o else "") or ""}'[-1500:]})
        elif result_digest(o) != base_a:
            violations.append({'key': 'concurrent-run-interferes',
                               'msg': f'{what}: A result differs from solo'})
        if ob is None or not ob.ok:
            violations.append({
                'key': 'concurrent-run-interferes',
                'msg': f'{what}: B failed: {ob and ob.error}'})
        elif result_digest(ob) != base_b:
            violations.append({'key': 'concurrent-run-interferes',
                               'msg': f'{what}: B result differs from solo'})
        for key, msg in w.check(what):
            violations.append({'key': key, 'msg': msg})
        keys.append(what)
    return {'violations': violations[:30], 'keys': keys, 'evaluations': n,
            'outcomes': ['concurrent'], 'states': n_points,
            'transitions': n, 'traces': n,
            'sample': {'kind': 'concurrent runs',
                       'scheduling_points_of_A': n_points}}


def evaluate_trackers(case, scratch):
    """(e) two FileTracker life cycles on ONE scratch directory (the stage
    that builds the reference statistics and the mapping stage of one
    pipeline, or two runs): every interleaving of
    [new, add input, add output, write staged output, finalise] x 2;
    after every step each live tracker's staged files exist with their own
    content; at the end the scratch directory is empty, each output holds
    its own content and the inputs are untouched."""
    import gc
    import itertools
    from cell_type_mapper.file_tracker.file_tracker import FileTracker
    OPS = ['new', 'add_in', 'add_out', 'write', 'close']
    violations = []
    keys = []
    traces = transitions = 0
    outcomes = set()
    for same_name in (True, False):
        for slots in itertools.combinations(range(10), 5):
            order = ['B'] * 10
            for i in slots:
                order[i] = 'A'
            base = scratch.new_dir('ft')
            scr = base / 'scratch'
            scr.mkdir()
            env = {}
            for who in 'AB':
                d = base / f'data_{who}'
                d.mkdir()
                name = 'query.h5ad' if same_name else f'query_{who}.h5ad'
                (d / name).write_text(f'input of {who}')
                env[who] = {'in': d / name, 'out': d / 'result.json',
                            'ft': None, 'step': 0, 'staged': {}}
            desc = f"same_name={same_name} schedule={''.join(order)}"
            bad = None
            for who in order:
                e = env[who]
                op = OPS[e['step']]
                e['step'] += 1
                transitions += 1
                try:
                    if op == 'new':
                        e['ft'] = FileTracker(tmp_dir=scr)
                    elif op == 'add_in':
                        e['ft'].add_file(e['in'], input_only=True)
                        e['staged'][e['ft'].real_location(e['in'])] = \
                            f'input of {who}'
                    elif op == 'add_out':
                        e['ft'].add_file(e['out'], input_only=False)
                    elif op == 'write':
                        loc = e['ft'].real_location(e['out'])
                        loc.write_text(f'output of {who}')
                        e['staged'][loc] = f'output of {who}'
                    else:
                        ft = e['ft']
                        e['ft'] = None
                        e['staged'] = {}
                        ft.__del__()
                        ft._to_write_out = []
                        ft.tmp_dir = None
                        del ft
                        gc.collect()
                except Exception as ex:
                    bad = f'{desc}: {who}.{op} raised {type(ex).__name__}: {ex}'
                    break
                for w2 in 'AB':
                    for loc, content in env[w2]['staged'].items():
                        if not loc.is_file() or loc.read_text() != content:
                            bad = (f'{desc}: after {who}.{op} the staged '
                                   f'file {loc.name} of tracker {w2} is '
                                   'gone or changed')
                if bad:
                    break
            if bad is None:
                left = sorted(x.name for x in scr.iterdir())
                if left:
                    bad = f'{desc}: scratch not empty at the end: {left}'
                for who in 'AB':
                    e = env[who]
                    if e['in'].read_text() != f'input of {who}':
                        bad = f'{desc}: input of {who} altered'
                    if not e['out'].is_file() or \
                            e['out'].read_text() != f'output of {who}':
                        bad = f'{desc}: output of {who} missing or wrong'
            for who in 'AB':         # never leave a live tracker behind
                ft = env[who]['ft']
                if ft is not None:
                    ft._to_write_out = []
                    ft.tmp_dir = None
            if bad:
                violations.append({'key': 'trackers-interfere', 'msg': bad})
            outcomes.add('interfere' if bad else 'clean')
            traces += 1
            keys.append(desc)
            shutil.rmtree(base, ignore_errors=True)
    return {'violations': violations[:40], 'keys': keys,
            'outcomes': sorted(outcomes), 'evaluations': traces,
            'states': 0, 'transitions': transitions, 'traces': traces,
            'sample': {'kind': 'two FileTracker life cycles, all '
                               'interleavings', 'schedules': traces}}


def post_check(tot):
    if tot['traces'] < 100:
        return [{'key': 'vacuous', 'msg': f"{tot['traces']} histories"}]
    return []
