"""
C10 - the taxonomy stays a strict tree under construction and transformation.

Explicit-state search on the real TaxonomyTree objects: for every tree shape
in the scope, breadth-first over operation sequences; the reference model is
the plain child->parent dictionary of mc.domains.  Every state reached is
compared with the model state reached by the same operation sequence, and
states reached by different paths with the same surviving levels must be
identical (differential oracle).  Every single-edit malformed variant of
every tree must be rejected.
"""
import copy
import itertools
import json
import warnings

from mc import domains

PROPERTY = 'C10'
LEVEL = 'model_checking'
EXHAUSTIVE = True
RULE = ("every tree shape with <=L levels and <=N leaves x label scheme; BFS "
        "over {drop(level), flatten, to_str/from_str, drop_leaf_level} to the "
        "stated depth on the real TaxonomyTree, each state compared with the "
        "dict model; every single-edit malformed variant (second parent, "
        "ghost child, orphan, unlisted child, cell in two leaves) at every "
        "position.  distinct_nontrivial = distinct canonical (shape, scheme, "
        "surviving levels) states with >= 2 leaves")
ASSUMPTIONS = [
    "node names are strings unique within a level (the validator's domain)",
    "internal nodes with an empty child list and duplicate entries inside "
    "one child list are outside the statement's three conditions (DESIGN D-a)",
]


def bounds(tier):
    if tier == 'quick':
        return {'max_levels': 4, 'max_leaves': 6,
                'schemes': ['A', 'B', 'D'], 'depth': 3}
    return {'max_levels': 5, 'max_leaves': 7,
            'schemes': ['A', 'B', 'C', 'D'], 'depth': 4}


def cases(tier, seed):
    b = bounds(tier)
    for L, n, shape in domains.shapes_up_to(b['max_levels'],
                                            b['max_leaves']):
        if L == 5 and n > 5:
            continue
        for scheme in b['schemes']:
            yield {'L': L, 'n': n, 'shape': shape, 'scheme': scheme,
                   'depth': b['depth'], 'seed': seed}


def _as_shape(x):
    return tuple(_as_shape(c) for c in x)


# ---------------------------------------------------------------- oracle

def _pairs_model(model, parent):
    """unordered cross-child leaf pairs under `parent` (None = root)"""
    h = model['hierarchy']
    if parent is None:
        kids = model['nodes'][h[0]]
        child_level = h[0]
    else:
        if parent[0] == h[-1]:
            return []
        kids = model['children'][parent[0]][parent[1]]
        child_level = h[h.index(parent[0]) + 1]
    out = []
    for a, b in itertools.combinations(kids, 2):
        for la in domains.model_leaves_under(model, child_level, a):
            for lb in domains.model_leaves_under(model, child_level, b):
                out.append(tuple(sorted((la, lb))))
    return out


def compare_state(tree, model, path, cells=None):
    """all observable queries of `tree` against `model`; returns messages"""
    bad = []

    def err(msg):
        bad.append(f'path={path}: {msg}')

    h = model['hierarchy']
    if tree.hierarchy != h:
        err(f'hierarchy {tree.hierarchy} != {h}')
        return bad
    if tree.leaf_level != h[-1]:
        err('leaf_level')
    if sorted(tree.all_leaves) != sorted(model['leaves']):
        err(f'all_leaves {sorted(tree.all_leaves)} != '
            f'{sorted(model["leaves"])}')
    if tree.n_leaves != len(model['leaves']):
        err('n_leaves')
    as_leaves = tree.as_leaves
    exp_parents = [None]
    for li, level in enumerate(h):
        got_nodes = tree.nodes_at_level(level)
        if sorted(got_nodes) != sorted(model['nodes'][level]):
            err(f'nodes_at_level({level}) {sorted(got_nodes)}')
            continue
        if len(set(got_nodes)) != len(got_nodes):
            err(f'duplicate nodes at {level}')
        for node in model['nodes'][level]:
            if li < len(h) - 1:
                exp_parents.append((level, node))
                kids = tree.children(level, node)
                if sorted(kids) != sorted(model['children'][level][node]):
                    err(f'children({level},{node}) = {sorted(kids)} expected '
                        f'{sorted(model["children"][level][node])}')
                # parent / child queries are mutually inverse
                for k in kids:
                    p = tree.parents(h[li + 1], k)
                    if p.get(level) != node:
                        err(f'parents({h[li+1]},{k})[{level}]={p.get(level)} '
                            f'but {k} is listed under {node}')
            # ancestors at every remaining level
            exp_anc = {}
            cur = node
            for lj in range(li, 0, -1):
                cur = model['parent'][h[lj]][cur]
                exp_anc[h[lj - 1]] = cur
            got_anc = tree.parents(level, node)
            if got_anc != exp_anc:
                err(f'parents({level},{node}) = {got_anc} expected {exp_anc}')
            # descendant leaves
            got_l = as_leaves[level][node]
            exp_l = domains.model_leaves_under(model, level, node)
            if sorted(got_l) != sorted(exp_l):
                err(f'as_leaves[{level}][{node}] = {sorted(got_l)} expected '
                    f'{sorted(exp_l)}')
            if len(set(got_l)) != len(got_l):
                err(f'as_leaves[{level}][{node}] lists a leaf twice')
            # partition: children's leaves are disjoint and cover
            if li < len(h) - 1:
                acc = []
                for k in tree.children(level, node):
                    acc += as_leaves[h[li + 1]][k]
                if sorted(acc) != sorted(got_l):
                    err(f"children's leaves of ({level},{node}) do not "
                        f'partition its leaves: {sorted(acc)} vs '
                        f'{sorted(got_l)}')
    top_kids = tree.children(None, None)
    if sorted(top_kids) != sorted(model['nodes'][h[0]]):
        err('children(None,None)')
    got_parents = tree.all_parents
    if got_parents[0] is not None or \
            sorted(map(tuple, got_parents[1:])) != sorted(exp_parents[1:]) \
            or len(got_parents) != len(exp_parents):
        err(f'all_parents {got_parents}')
    # leaf pairs to discriminate
    for parent in exp_parents + [(h[-1], model['leaves'][0])]:
        got = tree.leaves_to_compare(parent)
        exp = _pairs_model(model, parent)
        got_pairs = []
        for g in got:
            if g[0] != h[-1]:
                err(f'leaves_to_compare({parent}) level tag {g[0]}')
            if not g[1] < g[2]:
                err(f'leaves_to_compare({parent}) pair not ordered: {g}')
            got_pairs.append(tuple(sorted((g[1], g[2]))))
        if sorted(got_pairs) != sorted(exp):
            err(f'leaves_to_compare({parent}) = {sorted(got_pairs)} '
                f'expected {sorted(exp)}')
        if len(set(got_pairs)) != len(got_pairs):
            err(f'leaves_to_compare({parent}) lists a pair twice')
    if cells is not None:
        l2c = tree.leaf_to_cells
        for leaf in model['leaves']:
            if sorted(l2c[leaf]) != sorted(cells[leaf]):
                err(f'leaf_to_cells[{leaf}] = {l2c[leaf]} expected '
                    f'{cells[leaf]}')
            if list(tree.rows_for_leaf(leaf)) != list(l2c[leaf]):
                err('rows_for_leaf')
    return bad


def canon(tree):
    """canonical, order-free form of a tree through its serialisation"""
    d = json.loads(tree.to_str())
    h = d['hierarchy']
    out = [tuple(h)]
    for li, level in enumerate(h):
        out.append(tuple(sorted(
            (node, tuple(sorted(d[level][node]))) for node in d[level])))
    return tuple(out)


# ------------------------------------------------------------ transitions

def enabled_ops(model):
    h = model['hierarchy']
    ops = ['flatten', 'roundtrip', 'roundtrip_nocells']
    if len(h) > 1:
        ops += [('drop', lv) for lv in h[:-1]]
        ops.append('drop_leaf')
    return ops


def apply_impl(tree, op):
    from cell_type_mapper.taxonomy.taxonomy_tree import TaxonomyTree
    if op == 'flatten':
        return tree.flatten()
    if op == 'roundtrip':
        return TaxonomyTree.from_str(tree.to_str())
    if op == 'roundtrip_nocells':
        return TaxonomyTree(data=json.loads(tree.to_str(drop_cells=True)))
    if op == 'drop_leaf':
        return tree.drop_leaf_level()
    if op[0] == 'drop':
        return tree.drop_level(op[1])
    raise ValueError(op)


def apply_model(model, cells, op):
    if op == 'flatten':
        m = model
        for lv in model['hierarchy'][:-1]:
            m = domains.model_drop_level(m, lv)
        return m, cells
    if op == 'roundtrip':
        return model, cells
    if op == 'roundtrip_nocells':
        return model, (None if cells is None
                       else {k: [] for k in cells})
    if op == 'drop_leaf':
        h = model['hierarchy']
        # the cells of the merged leaves become the cells of the new leaf
        new_cells = None
        if cells is not None:
            new_cells = {n: [c for k in model['children'][h[-2]][n]
                             for c in cells[k]]
                         for n in model['nodes'][h[-2]]}
        return domains.model_drop_level(model, h[-1]), new_cells
    if op[0] == 'drop':
        return domains.model_drop_level(model, op[1]), cells
    raise ValueError(op)


# -------------------------------------------------------------- evaluate

def evaluate(case, scratch):
    from cell_type_mapper.taxonomy.taxonomy_tree import TaxonomyTree
    from cell_type_mapper.taxonomy import utils as tax_utils
    warnings.filterwarnings('ignore')
    shape = _as_shape(case['shape'])
    L = case['L']
    scheme = case['scheme']
    seed = case['seed']
    data, model = domains.realize_tree(L, shape, scheme, seed=seed,
                                       with_cells=2)
    data['metadata'] = {'verif': True}
    cells = {leaf: list(data[model['hierarchy'][-1]][leaf])
             for leaf in model['leaves']}
    violations = []
    keys = set()
    outcomes = set()
    n_states = 0
    n_trans = 0
    n_traces = 0

    def viol(key, msgs):
        violations.append({'key': key, 'msg': '\n'.join(msgs[:10])})

    # ---- construction: accepted, and equal to the model
    try:
        root = TaxonomyTree(data=copy.deepcopy(data))
    except Exception as e:
        viol('valid-tree-rejected', [f'{type(e).__name__}: {e}'])
        return {'violations': violations}

    # ---- BFS over operation sequences
    seen = {}           # hierarchy tuple (+cells flag) -> canonical form
    frontier = [((), root, model, cells)]
    visited = set()
    depth = case['depth']
    for d in range(depth + 1):
        nxt = []
        for path, tree, mdl, cl in frontier:
            bad = compare_state(tree, mdl, path, cells=cl)
            if bad:
                viol('state-mismatch', bad)
            c = canon(tree)
            n_traces += 1
            surviving = (tuple(mdl['hierarchy']),
                         json.dumps(cl, sort_keys=True))
            if surviving in seen and seen[surviving][0] != c:
                viol('path-dependence',
                     [f'paths {seen[surviving][1]} and {path} keep the same '
                      f'levels {surviving[0]} but differ:\n'
                      f'{seen[surviving][0]}\n{c}'])
            seen.setdefault(surviving, (c, path))
            if c in visited:
                continue
            visited.add(c)
            n_states += 1
            if len(mdl['leaves']) >= 2:
                keys.add(json.dumps([domains.shape_str(shape), scheme,
                                     list(mdl['hierarchy']),
                                     cl is None or
                                     all(len(v) == 0 for v in cl.values())]))
            outcomes.add(json.dumps(c)[:2000])
            if d == depth:
                continue
            for op in enabled_ops(mdl):
                try:
                    t2 = apply_impl(tree, op)
                except Exception as e:
                    viol('operation-raised',
                         [f'path={path} op={op}: {type(e).__name__}: {e}'])
                    continue
                m2, c2 = apply_model(mdl, cl, op)
                n_trans += 1
                nxt.append((path + (op,), t2, m2, c2))
                # the operation must leave the tree it was applied to as it
                # was (it is used again by the sibling branches)
                if canon(tree) != c:
                    viol('operation-mutates-source',
                         [f'path={path}: after {op} the source tree changed'
                          f':\n{c}\n{canon(tree)}'])
                    bad2 = compare_state(tree, mdl, path + ('after', op),
                                         cells=cl)
                    if bad2:
                        viol('operation-mutates-source', bad2)
                    break
            # operations the model says are not enabled must be refused
            if len(mdl['hierarchy']) == 1:
                for op in ('drop_leaf', ('drop', mdl['hierarchy'][0])):
                    try:
                        apply_impl(tree, op)
                        viol('drop-on-flat-accepted', [f'path={path} {op}'])
                    except RuntimeError:
                        pass
            else:
                try:
                    tree.drop_level(mdl['hierarchy'][-1])
                    viol('drop-leaf-via-drop_level-accepted', [f'{path}'])
                except RuntimeError:
                    pass
                try:
                    tree.drop_level('no_such_level')
                    viol('drop-unknown-level-accepted', [f'{path}'])
                except RuntimeError:
                    pass
        frontier = nxt

    # ---- construction from per-cell label columns
    h = model['hierarchy']
    records = []
    for leaf in model['leaves']:
        anc = domains.model_ancestors(model, leaf)
        for _ in range(2):
            records.append({lv: anc[lv] for lv in h})
    import random
    rnd = random.Random(seed + 5)
    rnd.shuffle(records)
    for r in records:
        r['other'] = 'zzz'
    try:
        obs_tree_data = tax_utils.get_taxonomy_tree(
            obs_records=copy.deepcopy(records), column_hierarchy=list(h))
        obs_tree = TaxonomyTree(data=obs_tree_data)
        exp_cells = {leaf: [i for i, r in enumerate(records)
                            if r[h[-1]] == leaf] for leaf in model['leaves']}
        bad = compare_state(obs_tree, model, 'from_obs', cells=exp_cells)
        if bad:
            viol('from-obs-mismatch', bad)
        n_traces += 1
    except Exception as e:
        viol('from-obs-raised', [f'{type(e).__name__}: {e}'])
    # a label combination that breaks the tree must be refused: for every
    # level below the top, one extra record (placed last, and placed first)
    # that puts an existing node under a second parent
    for li in range(1, L):
        lv, above = h[li], h[li - 1]
        if len(model['nodes'][above]) < 2:
            continue
        for position in ('last', 'first'):
            bad_records = copy.deepcopy(records)
            first = bad_records[0]
            other_parent = [p for p in model['nodes'][above]
                            if p != first[above]][0]
            clash = dict(first)
            clash[above] = other_parent
            cur = other_parent
            for lj in range(li - 1, 0, -1):
                cur = model['parent'][h[lj]][cur]
                clash[h[lj - 1]] = cur
            if position == 'last':
                bad_records.append(clash)
            else:
                bad_records.insert(0, clash)
            try:
                bad = tax_utils.get_taxonomy_tree(
                    obs_records=bad_records, column_hierarchy=list(h))
                TaxonomyTree(data=bad)
                viol('from-obs-two-parents-accepted',
                     [f'{lv} node {first[lv]!r} labelled under parents '
                      f'{first[above]!r} and {other_parent!r} ({position})'])
            except RuntimeError:
                pass
            n_traces += 1

    # ---- every single-edit malformed variant must be rejected
    n_mut = 0
    # the same variants on the tree without cell lists (what the output
    # metadata and the marker files carry)
    nocells = copy.deepcopy(data)
    for leaf in nocells[model['hierarchy'][-1]]:
        nocells[model['hierarchy'][-1]][leaf] = []
    variants = list(malformed_variants(data, model)) + [
        (k + '/nocells', v) for k, v in malformed_variants(nocells, model)]
    for mkey, mdata in variants:
        n_mut += 1
        try:
            TaxonomyTree(data=mdata)
            viol(f'malformed-accepted:{mkey.split("@")[0]}',
                 [f'variant {mkey} of {json.dumps(data)} accepted'])
        except RuntimeError:
            pass
        except Exception as e:
            # rejected, but not with the validator's own error
            outcomes.add(f'reject:{type(e).__name__}')
    return {
        'violations': violations,
        'keys': sorted(keys),
        'outcomes': sorted(outcomes)[:50],
        'evaluations': n_traces + n_mut,
        'states': n_states,
        'transitions': n_trans,
        'traces': n_traces,
        'extra': {'malformed_variants': n_mut},
        'sample': {'shape': domains.shape_str(shape), 'scheme': scheme,
                   'states': n_states, 'transitions': n_trans,
                   'malformed_variants': n_mut,
                   'example_path': [str(p) for p in
                                    (frontier[0][0] if frontier else ())]},
    }


def malformed_variants(data, model):
    h = model['hierarchy']
    for li in range(len(h) - 1):
        level, below = h[li], h[li + 1]
        parents = model['nodes'][level]
        # (a) a second parent for a child - every (child, other parent)
        for child in model['nodes'][below]:
            for p in parents:
                if p == model['parent'][below][child]:
                    continue
                d = copy.deepcopy(data)
                d[level][p] = list(d[level][p]) + [child]
                yield f'second-parent@{below}:{child}->{p}', d
        # (b) listed child that does not exist - at every parent
        for p in parents:
            d = copy.deepcopy(data)
            d[level][p] = list(d[level][p]) + ['ghost_node']
            yield f'ghost-child@{level}:{p}', d
        # (c) child without a parent: a new node nobody lists / an existing
        # child removed from its parent's list
        d = copy.deepcopy(data)
        d[below]['orphan_node'] = [] if li + 1 < len(h) - 1 else []
        yield f'orphan@{below}', d
        for child in model['nodes'][below]:
            d = copy.deepcopy(data)
            p = model['parent'][below][child]
            d[level][p] = [c for c in d[level][p] if c != child]
            yield f'unlisted@{below}:{child}', d
    # (d) one cell in two leaves - every ordered pair of distinct leaves
    leaf_level = h[-1]
    for a, b in itertools.permutations(model['leaves'], 2):
        if not data[leaf_level][a]:
            continue
        d = copy.deepcopy(data)
        d[leaf_level][b] = list(d[leaf_level][b]) + [d[leaf_level][a][0]]
        yield f'cell-in-two-leaves@{a},{b}', d
    # (e) structural keys
    d = copy.deepcopy(data)
    d.pop('hierarchy')
    yield 'no-hierarchy@', d
    d = copy.deepcopy(data)
    d['extra_level'] = {}
    yield 'extra-level@', d
    if len(h) > 1:
        d = copy.deepcopy(data)
        d.pop(h[0])
        yield 'missing-level@', d


def post_check(tot):
    out = []
    if tot['states'] < 100 or tot['transitions'] < 100:
        out.append({'key': 'vacuous', 'msg': f'too few states {tot}'})
    return out
