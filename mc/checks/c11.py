"""
C11 - reference markers are sound and complete for the stated criteria.

Small-scope exhaustive enumeration on the real reference-marker stage (and
the p-value-mask route) over SYNTHETIC statistics files, so that cluster
size, mean, variance and penetrance per (cluster, gene) are set directly and
straddle every threshold.  Oracle: scipy's Welch test from summary
statistics + textbook Holm + the penetrance arithmetic of the statement.
"""
import itertools
import json

import h5py
import numpy as np
from scipy import stats as scipy_stats

PROPERTY = 'C11'
LEVEL = 'exploration'
RULE = ("data sets = every multiset of 4 gene archetypes out of 8 (330) over "
        "7 clusters (21 leaf pairs, 3 worker chunks of 8 pairs in both routes); archetypes put cluster "
        "states {off, fold between floor and strict, on, on with large "
        "variance, zero-variance low, penetrance between floor and strict} "
        "on the clusters; default configuration + 1 deviation over cluster "
        "sizes {(2,3,10,2,4,3,2),(1,2,3,10,2,2,5),(2,2,...),(10,2,3,2,2,1,5)}, exact_penetrance, "
        "n_valid {1,2,4}, gene_list, n_processors {1,2,3}, max_gb, cluster "
        "renaming that swaps every pair; p-value-mask route for every data "
        "set.  distinct_nontrivial = distinct (data set, configuration) runs "
        "with >= 1 recorded marker")
ASSUMPTIONS = [
    "pairs x genes where both variances are 0 (Welch undefined) and values "
    "within 1e-6 of a threshold are not judged",
    "thresholds: the defaults (each strict threshold above its floor)",
]
CASE_TIMEOUT = 900

# cluster states: (mean log2CPM, variance, fraction of cells >= 1 CPM)
OFF = (0.0, 0.02, 0.0)
MID = (0.9, 0.03, 0.3)         # fold vs OFF between floor 0.8 and strict 1
ON = (3.0, 0.05, 1.0)
NOISY = (3.0, 4.0, 0.6)
FLAT = (0.5, 0.0, 0.05)        # zero variance
HALF = (2.0, 0.05, 0.45)       # penetrance below the strict 0.5
WILD = (14.0, 8.0, 1.0)       # far away, variance/n of order 1 or more
ARCHETYPES = {
    'a': (OFF, OFF, OFF, ON, ON, MID, OFF),
    'b': (OFF, MID, ON, OFF, MID, ON, HALF),
    'c': (ON, ON, ON, ON, ON, ON, ON),
    'd': (OFF, MID, MID, OFF, OFF, HALF, MID),
    'e': (NOISY, OFF, NOISY, OFF, ON, OFF, NOISY),
    'f': (FLAT, FLAT, ON, FLAT, OFF, FLAT, ON),
    'g': (ON, OFF, OFF, ON, OFF, NOISY, OFF),
    'h': (HALF, OFF, HALF, ON, OFF, ON, FLAT),
    # only used in the extra data sets below (keeps the multiset space at
    # 330): a far-away, high-variance state next to the one-cell cluster,
    # for which a degenerate Welch test (n = 1) still yields a small p
    'i': (WILD, OFF, OFF, WILD, OFF, OFF, ON),
}
# the one-cell cluster is first in name order in SIZES[1] (cl_b ... ) and
# last in SIZES[3] (cl_g), next to a 10-cell cluster in both
SIZES = [(2, 3, 10, 2, 4, 3, 2), (1, 2, 3, 10, 2, 2, 5),
         (2, 2, 2, 2, 2, 2, 2), (10, 2, 3, 2, 2, 1, 5)]
TH = dict(p_th=0.01, q1_th=0.5, qdiff_th=0.7, log2_fold_th=1.0,
          q1_min_th=0.1, qdiff_min_th=0.1, log2_fold_min_th=0.8)
NAMES = ['cl_b', 'cl_e', 'cl_a', 'cl_d', 'cl_c', 'cl_g', 'cl_f']
REVERSED = ['zz_1', 'yy_2', 'xx_3', 'ww_4', 'vv_5', 'uu_6', 'tt_7']
# 21 leaf pairs: both routes work in chunks of 8 pairs (the enforced
# minimum), i.e. scratch files for rows 0-8, 8-16 and 16-24, whose names sort
# differently as strings than as numbers.


def bounds(tier):
    return {'datasets': 330, 'deviation_bound': 1 if tier == 'quick' else 2}


def cases(tier, seed):
    keys = sorted(k for k in ARCHETYPES if k != 'i')
    multis = list(itertools.combinations_with_replacement(keys, 4))
    step = 6
    for i in range(0, len(multis), step):
        yield {'datasets': multis[i:i + step], 'seed': seed, 'tier': tier}
    yield {'datasets': [('i', 'a', 'b', 'g'), ('i', 'i', 'e', 'h'),
                        ('i', 'c', 'd', 'f')], 'seed': seed, 'tier': tier}
    # more genes than an 8-bit (and, thorough, a 16-bit) index can address,
    # with the informative genes at both ends of the gene axis
    for n_genes in ((300,) if tier == 'quick' else (300, 66000)):
        for head, tail in ((('a', 'b', 'e', 'g'), ('h', 'd', 'f', 'a')),
                           (('g', 'g', 'a', 'h'), ('b', 'e', 'a', 'g'))):
            genes = tuple(head) + ('c',) * (n_genes - 8) + tuple(tail)
            yield {'datasets': [genes], 'seed': seed, 'tier': tier,
                   'wide': True}


def write_stats(path, genes, sizes, names, seed):
    """synthetic statistics file; returns per-cluster arrays"""
    k = len(names)
    n_genes = len(genes)
    rng = np.random.default_rng(seed)
    mean = np.zeros((k, n_genes))
    var = np.zeros((k, n_genes))
    ge1 = np.zeros((k, n_genes), dtype=int)
    for j, g in enumerate(genes):
        for i in range(k):
            m, v, frac = ARCHETYPES[g][i]
            # a little gene-specific jitter keeps duplicated archetypes from
            # being exact copies (ties are still present through 'c')
            mean[i, j] = m + (0.001 * j if m > 0 else 0.0)
            var[i, j] = v
            ge1[i, j] = int(round(frac * sizes[i]))
    n = np.array(sizes)
    row = list(range(k))
    rng.shuffle(row)
    c2r = {names[i]: row[i] for i in range(k)}
    arr = {kk: np.zeros((k, n_genes)) for kk in ('sum', 'sumsq')}
    cnt = {kk: np.zeros((k, n_genes), dtype=int) for kk in
           ('ge1', 'gt1', 'gt0')}
    n_arr = np.zeros(k, dtype=int)
    for i in range(k):
        r = row[i]
        n_arr[r] = n[i]
        arr['sum'][r] = mean[i] * n[i]
        arr['sumsq'][r] = var[i] * max(n[i] - 1, 0) + n[i] * mean[i] ** 2
        for kk in cnt:
            cnt[kk][r] = ge1[i]
    tree = {'hierarchy': ['class', 'cluster'],
            'class': {'K1': [names[0], names[1], names[2]],
                      'K2': [names[3], names[4], names[5], names[6]]},
            'cluster': {nm: [] for nm in names}}
    gene_names = [f'gene_{g}_{j}' for j, g in enumerate(genes)]
    with h5py.File(path, 'w') as dst:
        dst.create_dataset('n_cells', data=n_arr)
        for kk in arr:
            dst.create_dataset(kk, data=arr[kk])
        for kk in cnt:
            dst.create_dataset(kk, data=cnt[kk])
        dst.create_dataset('cluster_to_row',
                           data=json.dumps(c2r).encode('utf-8'))
        dst.create_dataset('col_names',
                           data=json.dumps(gene_names).encode('utf-8'))
        dst.create_dataset('taxonomy_tree',
                           data=json.dumps(tree).encode('utf-8'))
        dst.create_dataset('metadata', data=json.dumps({}).encode('utf-8'))
    return {'mean': mean, 'var': var, 'ge1': ge1, 'n': n,
            'gene_names': gene_names}


def holm(p):
    m = len(p)
    order = np.argsort(p, kind='stable')
    adj = np.zeros(m)
    run = 0.0
    for rank, idx in enumerate(order):
        run = max(run, min(1.0, (m - rank) * p[idx]))
        adj[idx] = run
    return adj


def near(x, th):
    return abs(x - th) <= 1e-6 * max(1.0, abs(th))


def model_pair(st, i, j, gene_ok, exact, th):
    """-> per gene: 'must', 'may', 'never', 'skip' and direction"""
    n_genes = st['mean'].shape[1]
    out = []
    n1, n2 = st['n'][i], st['n'][j]
    if n1 < 2 or n2 < 2:
        return [('never', None)] * n_genes
    m1, m2 = st['mean'][i], st['mean'][j]
    v1, v2 = st['var'][i], st['var'][j]
    p = np.ones(n_genes)
    undefined = np.zeros(n_genes, dtype=bool)
    for g in range(n_genes):
        if v1[g] == 0 and v2[g] == 0:
            undefined[g] = True
            continue
        res = scipy_stats.ttest_ind_from_stats(
            m1[g], np.sqrt(v1[g]), n1, m2[g], np.sqrt(v2[g]), n2,
            equal_var=False)
        p[g] = res.pvalue if np.isfinite(res.pvalue) else 1.0
    # undefined tests: the library maps NaN to p = 1 (cdf 0.5); they take
    # part in the correction as such
    adj = holm(p)
    pa = st['ge1'][i] / max(1, n1)
    pb = st['ge1'][j] / max(1, n2)
    for g in range(n_genes):
        q1 = max(pa[g], pb[g])
        qd = abs(pa[g] - pb[g]) / q1 if q1 > 0 else 0.0
        fold = abs(m1[g] - m2[g])
        direction = 'up' if m2[g] > m1[g] else 'down'
        if undefined[g]:
            out.append(('skip', direction))
            continue
        vals = ((adj[g], th['p_th']), (q1, th['q1_th']),
                (qd, th['qdiff_th']), (fold, th['log2_fold_th']),
                (q1, th['q1_min_th']), (qd, th['qdiff_min_th']),
                (fold, th['log2_fold_min_th']))
        if any(near(a, b) for a, b in vals):
            out.append(('skip', direction))
            continue
        p_ok = adj[g] < th['p_th']
        strict = (q1 > th['q1_th'] and qd > th['qdiff_th']
                  and fold > th['log2_fold_th'])
        floors = (q1 >= th['q1_min_th'] and qd >= th['qdiff_min_th']
                  and fold >= th['log2_fold_min_th'])
        if not gene_ok[g] or not p_ok:
            out.append(('never', direction))
        elif strict:
            out.append(('must', direction))
        elif exact or not floors:
            out.append(('never', direction))
        else:
            out.append(('may', direction))
    return out


def read_markers(path):
    with h5py.File(path, 'r') as src:
        genes = json.loads(src['gene_names'][()].decode())
        p2i = json.loads(src['pair_to_idx'][()].decode())
        n_pairs = int(src['n_pairs'][()])
        tables = {}
        for d in ('up', 'down'):
            tables[d] = {
                'pair_ptr': src[f'sparse_by_pair/{d}_pair_idx'][()],
                'pair_genes': src[f'sparse_by_pair/{d}_gene_idx'][()],
                'gene_ptr': src[f'sparse_by_gene/{d}_gene_idx'][()],
                'gene_pairs': src[f'sparse_by_gene/{d}_pair_idx'][()],
            }
    return genes, p2i, n_pairs, tables


def check_file(path, st, names, gene_ok, exact, label):
    msgs = []
    genes, p2i, n_pairs, tables = read_markers(path)
    if genes != st['gene_names']:
        return [f'{label}: gene names {genes}'], 0
    level = 'cluster'
    order = sorted(names)
    exp_pairs = list(itertools.combinations(order, 2))
    got_pairs = {}
    for a in p2i.get(level, {}):
        for b, idx in p2i[level][a].items():
            got_pairs[(a, b)] = idx
    if sorted(got_pairs) != sorted(exp_pairs) or n_pairs != len(exp_pairs):
        return [f'{label}: pair table {sorted(got_pairs)}'], 0
    n_genes = len(genes)
    n_recorded = 0
    by_pair = {}
    for d in ('up', 'down'):
        t = tables[d]
        if len(t['pair_ptr']) != n_pairs + 1 or \
                len(t['gene_ptr']) != n_genes + 1:
            return [f'{label}: pointer array lengths'], 0
        from_pairs = set()
        for pi in range(n_pairs):
            seg = t['pair_genes'][t['pair_ptr'][pi]:t['pair_ptr'][pi + 1]]
            if len(set(seg.tolist())) != len(seg):
                msgs.append(f'{label}: duplicate gene in pair {pi} ({d})')
            for g in seg.tolist():
                from_pairs.add((pi, g))
        from_genes = set()
        for g in range(n_genes):
            seg = t['gene_pairs'][t['gene_ptr'][g]:t['gene_ptr'][g + 1]]
            for pi in seg.tolist():
                from_genes.add((pi, g))
        if from_pairs != from_genes:
            msgs.append(f'{label}: {d} tables are not transposes: '
                        f'{sorted(from_pairs ^ from_genes)[:4]}')
        by_pair[d] = from_pairs
    both = by_pair['up'] & by_pair['down']
    if both:
        msgs.append(f'{label}: (pair, gene) both up and down: '
                    f'{sorted(both)[:4]}')
    for (a, b), idx in got_pairs.items():
        i, j = names.index(a), names.index(b)
        model = model_pair(st, i, j, gene_ok, exact, TH)
        for g, (kind, direction) in enumerate(model):
            rec_up = (idx, g) in by_pair['up']
            rec_down = (idx, g) in by_pair['down']
            rec = rec_up or rec_down
            n_recorded += int(rec)
            if kind == 'skip':
                continue
            where = f'{label}: pair ({a},{b}) gene {genes[g]}'
            if kind == 'never' and rec:
                msgs.append(f'{where}: recorded although it fails the '
                            'criteria (sizes/p-value/floors/gene list)')
            if kind == 'must' and not rec:
                msgs.append(f'{where}: passes the strict thresholds but is '
                            'not recorded')
            if rec and ((direction == 'up') != rec_up):
                msgs.append(f'{where}: direction recorded '
                            f'{"up" if rec_up else "down"}, means say '
                            f'{direction}')
    return msgs, n_recorded


def digest(path):
    genes, p2i, n_pairs, tables = read_markers(path)
    return json.dumps([genes, p2i, n_pairs,
                       {d: {k: v.tolist() for k, v in t.items()}
                        for d, t in tables.items()}], sort_keys=True)


def evaluate(case, scratch):
    import warnings
    warnings.filterwarnings('ignore')
    from mc import refdata
    d = scratch.new_dir('c11')
    tmp = scratch.new_dir('tmp')
    violations = []
    keys = []
    n_runs = 0
    sample = None

    def viol(key, msgs):
        for m in msgs[:3]:
            violations.append({'key': key, 'msg': m})

    default = {'sizes': 0, 'exact': False, 'n_valid': 2, 'gene_list': False,
               'n_proc': 1, 'max_gb': 10, 'rename': False}
    alph = {'sizes': [1, 2, 3], 'exact': [True], 'n_valid': [1, 4],
            'gene_list': [True], 'n_proc': [2, 3], 'max_gb': [1e-9],
            'rename': [True]}
    from mc import domains
    dbound = 1 if case['tier'] == 'quick' else 2
    if case.get('wide'):
        dbound = 1
        alph = {'exact': [True], 'n_proc': [2, 3], 'sizes': [1],
                'rename': [True]}
    for di, genes in enumerate(case['datasets']):
        base_digest = None
        for cfg, dev in domains.deviations(default, alph, dbound):
            names = REVERSED if cfg['rename'] else NAMES
            sizes = SIZES[cfg['sizes']]
            sp = d / f'stats_{di}_{n_runs}.h5'
            st = write_stats(sp, genes, sizes, names, case['seed'] + di)
            gene_ok = [True] * len(genes)
            gene_list = None
            if cfg['gene_list']:
                gene_list = [st['gene_names'][0], st['gene_names'][2],
                             'not_a_reference_gene']
                gene_ok = [g in gene_list for g in st['gene_names']]
            out = d / f'markers_{di}_{n_runs}.h5'
            label = (f'data set {genes} sizes={sizes} '
                     f'{ {k: cfg[k] for k in dev} }')
            try:
                refdata.run_reference_markers(
                    sp, out, tmp, n_processors=cfg['n_proc'],
                    max_gb=cfg['max_gb'], exact_penetrance=cfg['exact'],
                    n_valid=cfg['n_valid'], gene_list=gene_list)
            except Exception as e:
                import traceback
                tb = traceback.format_exc()
                viol(classify_crash(str(e) + tb),
                     [f'{label}: raised {type(e).__name__}: {e}\n'
                      f'{tb[-600:]}'])
                continue
            n_runs += 1
            msgs, n_rec = check_file(out, st, names, gene_ok, cfg['exact'],
                                     label)
            viol('markers-wrong', msgs)
            if n_rec:
                keys.append(label)
            if not dev:
                base_digest = digest(out)
                if sample is None:
                    sample = {'data_set': genes, 'sizes': sizes,
                              'recorded_markers': n_rec}
            elif dev in (('n_proc',), ('max_gb',)) and base_digest:
                if digest(out) != base_digest:
                    viol('depends-on-workers-or-budget',
                         [f'{label}: output differs from the default run'])
            out.unlink()
            # ---- p-value-mask route (approximate penetrance only)
            if not cfg['exact'] and not cfg['rename'] and \
                    dev in ((), ('sizes',), ('n_valid',), ('n_proc',),
                            ('gene_list',)):
                mask = d / f'mask_{di}_{n_runs}.h5'
                out2 = d / f'markers_pm_{di}_{n_runs}.h5'
                try:
                    refdata.run_p_mask(sp, mask, tmp,
                                       n_processors=cfg['n_proc'], n_per=4)
                    refdata.run_markers_from_p_mask(
                        sp, mask, out2, tmp, n_processors=cfg['n_proc'],
                        n_valid=(30 if not dev else cfg['n_valid']),
                        gene_list=gene_list)
                    n_runs += 1
                    msgs, n_rec = check_file(out2, st, names, gene_ok,
                                             False, label + ' [p-mask]')
                    viol('p-mask-markers-wrong', msgs)
                    if n_rec:
                        keys.append(label + ' [p-mask]')
                except Exception as e:
                    import traceback
                    tb = traceback.format_exc()
                    viol(classify_crash(str(e) + tb),
                         [f'{label} [p-mask]: raised {type(e).__name__}: '
                          f'{e}\n{tb[-600:]}'])
                for p in (mask, out2):
                    if p.exists():
                        p.unlink()
            sp.unlink()
    return {'violations': violations[:40], 'keys': keys,
            'outcomes': [str(case['datasets'][0])], 'evaluations': n_runs,
            'sample': sample}


def classify_crash(text):
    return 'stage-raised'


def post_check(tot):
    if len(tot['keys']) < 500:
        return [{'key': 'vacuous', 'msg': f"{len(tot['keys'])} runs with "
                                          'recorded markers'}]
    return []
