"""
C08 - marker genes are reconciled with the query by name, with ancestor
fallback.

Small-scope exhaustive enumeration on the real cache builder
(create_marker_cache_from_specified_markers + serialize_markers, in process):
for each tree in scope the FULL PRODUCT of per-parent marker entries over a
7-letter alphabet x every subset of the gene universe as query gene set x two
query orders x min_markers x flatten.  The oracle is the statement written as
code (mc.models.mapping.expected_markers).  A second part binds the table the
pipeline reports to what was used, through run_mapping with the recorder.
"""
import itertools
import json

import h5py

from mc import domains, mapcheck, scenario
from mc.models import mapping as mm

PROPERTY = 'C08'
LEVEL = 'exploration'
RULE = ("per tree (chains and bushes, <= 3 levels) the full product of "
        "per-parent entries {absent, [], [g0,g1], [g2,g3], [g1,g2,g1] "
        "(duplicates), [g3,x] (x unknown to the reference), [g0]} x all 16 "
        "subsets of the 4 reference genes as query gene set (+/- x) x 2 "
        "column orders x min_markers {0,1,2,3,10} x flatten; error/success and "
        "the per-parent gene sets compared with the statement-as-code; "
        "name-wise pairing read from the cache file.  distinct_nontrivial = "
        "distinct (tree, table, query set, min_markers, flatten) whose model "
        "outcome is a successful reconciliation with >= 1 consulted parent")
ASSUMPTIONS = [
    "any table gene unknown to the reference must end the run with an "
    "error (literal reading of the statement)",
    "a root with a single child and no usable root list is not judged",
]
CASE_TIMEOUT = 1200

UNIVERSE = ['gb0', 'ga1', 'gd2', 'gc3']      # reference order, not sorted
XGENE = 'x_noref'
ENTRIES = [
    None,                                   # absent
    [],
    ['gb0', 'ga1'],
    ['gd2', 'gc3'],
    ['ga1', 'gd2', 'ga1'],                  # duplicates
    ['gc3', XGENE],                         # one gene not in the reference
    ['gb0'],
]


def trees(tier):
    """(name, L, shape) - chains and bushes"""
    out = [
        ('flat2', 1, ((), ())),
        ('A2_B1', 2, (((), ()), ((),))),
        ('top1_then_2_1', 3, ((((), ()), ((),)),)),
        ('A(2)_B(1)', 3, ((((), ()),), (((),),))),
        # four levels: the deepest parent has two non-root ancestors, so the
        # "nearest first" order of the fallback is observable
        ('deep4_chain', 4, (((((), ()),),),)),
        ('deep4_A((2))_B((1))', 4, (((((), ()),),), ((((),),),))),
    ]
    if tier == 'thorough':
        out.append(('A(2)(1)_B(2)', 3, ((((), ()), ((),)), (((), ()),))))
        out.append(('chain_2', 3, ((((), ()),),)))
        out.append(('A(2)(2)', 3, ((((), ()), ((), ())),)))
    return out


def bounds(tier):
    return {'trees': [t[0] for t in trees(tier)], 'entries': len(ENTRIES),
            'min_markers': [0, 1, 2, 3, 10], 'query_subsets': 16,
            'max_product': 2500 if tier == 'quick' else 25000}


def cases(tier, seed):
    b = bounds(tier)
    subsets = list(domains.subsets(UNIVERSE))
    for name, L, shape in trees(tier):
        for flatten in (False, True):
            if flatten and L == 1:
                continue
            # flattening unions all lists into the root's: min_markers
            # cannot matter (the root has no ancestor)
            for mm_ in (b['min_markers'] if not flatten else [1]):
                for qi, qs in enumerate(subsets):
                    yield {'tree': name, 'L': L, 'shape': shape,
                           'flatten': flatten, 'min_markers': mm_,
                           'query': list(qs), 'with_x': bool(qi % 2),
                           'order': qi % 2, 'seed': seed,
                           'max_product': b['max_product'], 'tier': tier}
    # pipeline binding: the reported table is the one that was used
    for L, n, shape in domains.shapes_up_to(3, 4, min_leaves=2):
        yield {'kind': 'pipe', 'L': L, 'shape': shape, 'seed': seed}


def evaluate(case, scratch):
    if case.get('kind') == 'pipe':
        return evaluate_pipe(case, scratch)
    from cell_type_mapper.taxonomy.taxonomy_tree import TaxonomyTree
    from cell_type_mapper.type_assignment.marker_cache_v2 import (
        create_marker_cache_from_specified_markers, serialize_markers)
    import warnings
    warnings.filterwarnings('ignore')
    shape = scenario._as_shape(case['shape'])
    data, model = domains.realize_tree(case['L'], shape, 'B',
                                       seed=case['seed'])
    tree = TaxonomyTree(data=data)
    if case['flatten']:
        tree_used = tree.flatten()
    else:
        tree_used = tree
    reduced = mm.reduce_model(model, flatten=case['flatten'])
    h = model['hierarchy']
    parents = ['None'] + [f'{lv}/{n}' for lv in h[:-1]
                          for n in model['nodes'][lv]]
    # Full alphabet for every parent with a choice; single-child parents
    # (whose content can only matter through the ancestor fallback or the
    # "unused entry" rule) get the full alphabet while the product stays
    # within the budget, nearest ancestors of a consulted parent first, and
    # a 3-letter alphabet {absent, [g2,g3], [g3,x]} otherwise.
    multi = {c[0] for c in mm.consulted_parents(model)}
    alph = {p: [0, 3, 5] for p in parents}
    for p in multi:
        alph[p] = list(range(len(ENTRIES)))
    ranked = []
    for c in mm.consulted_parents(model):
        for dist, a in enumerate(c[3] + ['None']):
            if a not in multi:
                ranked.append((dist, a))
    for _, a in sorted(ranked):
        prod = 1
        for p in parents:
            prod *= len(alph[p]) if p != a else len(ENTRIES)
        if prod <= case['max_product']:
            alph[a] = list(range(len(ENTRIES)))
    query = list(case['query'])
    if case['with_x']:
        query.append(XGENE)
    query.append('q_extra')
    if case['order']:
        query = query[::-1]
    ref_genes = list(UNIVERSE) + ['r_extra']
    d = scratch.new_dir('c')
    cache = d / 'cache.h5'
    violations = []
    keys = []
    outcomes = {}
    n_eval = 0
    sample = None
    for combo in itertools.product(*[alph[p] for p in parents]):
        table = {}
        for p, ei in zip(parents, combo):
            if ENTRIES[ei] is not None:
                table[p] = list(ENTRIES[ei])
        n_eval += 1
        exp = mm.expected_markers(reduced, table, query, ref_genes,
                                  case['min_markers'],
                                  flatten=case['flatten'])
        if not mm.consulted_parents(reduced) or (
                len(reduced['nodes'][reduced['hierarchy'][0]]) == 1
                and not (set(table.get('None', [])) & set(query))):
            if exp['status'] == 'ok':
                exp = dict(exp, status='unjudged')
        # what run_mapping does before building the cache
        lookup = dict(table)
        if case['flatten']:
            union = set()
            for k in lookup:
                union |= set(lookup[k])
            lookup = {'None': sorted(union)}
        err = None
        got = None
        pairing_bad = None
        try:
            create_marker_cache_from_specified_markers(
                marker_lookup=lookup, reference_gene_names=ref_genes,
                query_gene_names=query, output_cache_path=cache,
                taxonomy_tree=tree_used, min_markers=case['min_markers'])
            got = serialize_markers(marker_cache_path=cache,
                                    taxonomy_tree=tree_used)
            with h5py.File(cache, 'r') as src:
                for key in exp['markers']:
                    if key not in src:
                        pairing_bad = f'group {key} missing from the cache'
                        break
                    r = [ref_genes[i] for i in src[key]['reference'][()]]
                    q = [query[i] for i in src[key]['query'][()]]
                    if r != q:
                        pairing_bad = (f'{key}: reference columns {r} paired '
                                       f'with query columns {q}')
                        break
        except RuntimeError as e:
            err = f'RuntimeError: {str(e)[:200]}'
        except Exception as e:
            err = f'{type(e).__name__}: {str(e)[:200]}'
        desc = (f"tree={case['tree']} flatten={case['flatten']} "
                f"min_markers={case['min_markers']} query={query} "
                f"table={json.dumps(table)}")
        outcomes[exp['status'] + ('/err' if err else '/ok')] = \
            outcomes.get(exp['status'] + ('/err' if err else '/ok'), 0) + 1
        if exp['status'] == 'must_error':
            if err is None:
                violations.append({
                    'key': 'error-expected',
                    'msg': f"accepted although {exp['why']}\n{desc}"})
            continue
        if exp['status'] == 'unjudged' and err is not None:
            continue
        if err is not None:
            violations.append({
                'key': classify_error(err, table, query, reduced),
                'msg': f'raised {err} although every consulted parent has '
                       f'usable markers {exp["markers"]}\n{desc}'})
            continue
        if pairing_bad:
            violations.append({'key': 'pairing',
                               'msg': f'{pairing_bad}\n{desc}'})
        for f in mm.check_marker_report(got, reduced, exp, ref_genes):
            violations.append({'key': f['key'],
                               'msg': f"{f['msg']}\n{desc}"})
        if exp['status'] == 'ok' and exp['markers']:
            keys.append(f"{case['tree']}|{case['flatten']}|"
                        f"{case['min_markers']}|{sorted(query)}|{combo}")
            if sample is None and len(exp['markers']) > 1:
                sample = {'tree': case['tree'], 'table': table,
                          'query_genes': query,
                          'min_markers': case['min_markers'],
                          'expected': {k: sorted(v) for k, v in
                                       exp['markers'].items()},
                          'reported': got}
    return {'violations': violations[:40], 'keys': keys,
            'outcomes': [f'{k}' for k in outcomes], 'evaluations': n_eval,
            'extra': {f'n_{k}': v for k, v in outcomes.items()},
            'sample': sample}


def classify_error(err, table, query, reduced):
    if 'No markers at parent node' in err:
        cons = {c[0] for c in mm.consulted_parents(reduced)}
        import re
        m = re.search(r"parent node '([^']*)'", err)
        if m and m.group(1) not in cons:
            return 'F5:unused-parent-entry-absent-from-query'
    return 'unexpected-error'


def evaluate_pipe(case, scratch):
    violations = []
    keys = []
    n = 0
    shape_s = domains.shape_str(scenario._as_shape(case['shape']))
    for mmode in ('full', 'fallback'):
        for qg in ('superset', 'subset'):
            spec = {'L': case['L'], 'shape': case['shape'], 'scheme': 'B',
                    'n_cells': 3, 'seed': case['seed'], 'marker_mode': mmode,
                    'query_genes': qg}
            b = scenario.build(spec, scratch.new_dir('in') / 'in')
            for cfg in ({}, {'min_markers': 10}, {'flatten': True},
                        {'min_markers': 4, 'drop_level': 0}):
                if cfg.get('drop_level') is not None and case['L'] < 2:
                    continue
                res = mapcheck.run_and_judge(None, cfg, scratch,
                                             want=('C02', 'C08'), built=b)
                n += 1
                for f in res['findings']:
                    if f['prop'] != 'C08':
                        continue
                    violations.append({
                        'key': f['key'],
                        'msg': f"{f['key']}: {f['msg']}\npipeline shape="
                               f"{shape_s} markers={mmode} query={qg} {cfg}"})
                if res['outcome'].ok:
                    keys.append(f'pipe|{shape_s}|{mmode}|{qg}|{cfg}')
    return {'violations': violations[:40], 'keys': keys, 'evaluations': n,
            'outcomes': ['pipe'], 'extra': {'pipe_runs': n}}


def post_check(tot):
    ex = tot['extra']
    out = []
    if ex.get('n_ok/ok', 0) < 1000 or ex.get('n_must_error/err', 0) < 1000:
        out.append({'key': 'vacuous', 'msg': f'outcome census {ex}'})
    return out
