"""
C07 - mapping is invariant to count scale, declared normalisation and gene
order; negative raw input is rejected.

Paired runs of run_mapping (metamorphic relations), each relation explored
exhaustively over its stated finite space.
"""
import itertools

import numpy as np

from mc import domains, mapcheck, scenario

PROPERTY = 'C07'
LEVEL = 'exploration'
RULE = ("per tree shape: (a) raw vs own log2(CPM+1) declared normalised; "
        "(b) every assignment of scale factors {0.5,2,3,1000,1e-3} to the 3 "
        "cells (125 vectors); (c) every permutation of the 4 (5 thorough) "
        "query gene columns with their names, raw and normalised, bootstrap "
        "factor 0.5 and 1; (d) every subset of 3 extra genes {in reference "
        "but no marker, not in reference x2} added to / removed from normalised "
        "input, under the default memory budget and under max_gb equal to / "
        "half of the float64 footprint of one round of chunks of the base "
        "query; (e) a "
        "negative raw value at every (cell, gene) position x {dense, CSR, "
        "CSC} x HDF5 layouts {contiguous, chunk length 1,2,3,5} must raise "
        "and write no results; (f) the same raw counts stored as float64 / "
        "float32 / uint8 / int16 / uint16 / int32 / uint32 / int64 with "
        "per-cell totals beyond the narrow types' range map identically.  Bitwise equality for (c),(d); "
        "1e-9 on correlations at factor 1 for (a),(b), near-ties skipped.  "
        "distinct_nontrivial = distinct (shape, relation, instance) pairs "
        "compared")
ASSUMPTIONS = [
    "raw counts are integers so CPM row sums are exact in any column order",
    "near-ties (< 1e-7) skipped for the relations that perturb floats",
]
CASE_TIMEOUT = 900

SCALES = [0.5, 2.0, 3.0, 1000.0, 1e-3]


def bounds(tier):
    return {'max_levels': 3, 'max_leaves': 3 if tier == 'quick' else 4,
            'perm_genes': 4 if tier == 'quick' else 5}


def cases(tier, seed):
    b = bounds(tier)
    shapes = domains.shapes_up_to(b['max_levels'], b['max_leaves'],
                                  min_leaves=2)
    for si, (L, n, shape) in enumerate(shapes):
        for rel in ('norm', 'extra', 'negative', 'dtype'):
            yield {'rel': rel, 'L': L, 'shape': shape,
                   'scheme': 'BDE'[si % 3], 'seed': seed}
        for part in range(5):
            yield {'rel': 'scale', 'L': L, 'shape': shape,
                   'scheme': 'BDE'[si % 3], 'seed': seed, 'part': part}
    for L, n, shape in shapes:
        if n != 3:
            continue
        for part in range(3):
            yield {'rel': 'perm', 'L': L, 'shape': shape, 'scheme': 'B',
                   'seed': seed, 'n_genes': b['perm_genes'], 'part': part}


def _ok(r):
    return r.ok and r.blob and 'results' in r.blob


def evaluate(case, scratch):
    rel = case['rel']
    shape_s = domains.shape_str(scenario._as_shape(case['shape']))
    spec = {'L': case['L'], 'shape': case['shape'], 'scheme': case['scheme'],
            'n_cells': 3, 'seed': case['seed'], 'marker_mode': 'full'}
    violations = []
    keys = []
    n_runs = 0
    sample = None

    def viol(key, msg):
        violations.append({'key': key, 'msg': f'{shape_s} [{rel}] {msg}'})

    if rel == 'perm':
        spec.update(n_ref_genes=case['n_genes'], query_genes='perm')
    b = scenario.build(spec, scratch.new_dir('in') / 'in')
    levels = b.model['hierarchy']
    f1 = {'factor': 1.0, 'iterations': 2}

    if rel == 'norm':
        a = scenario.run_mapping(b, dict(f1, normalization='raw'),
                                 scratch.new_dir('a'))
        c = scenario.run_mapping(b, dict(f1, normalization='log2CPM'),
                                 scratch.new_dir('b'))
        n_runs += 2
        if not (_ok(a) and _ok(c)):
            viol('run-failed', f'{a.error} / {c.error}')
        else:
            frag = mapcheck.fragile_cells(b, a.config)
            for d in mapcheck.compare_results(
                    a.blob['results'], c.blob['results'], levels, tol=1e-9,
                    skip=frag)[:3]:
                viol('declared-normalisation-differs', d)
            keys.append(f'{shape_s}|norm')
            sample = {'relation': 'raw vs declared log2CPM', 'shape': shape_s}

    elif rel == 'dtype':
        # the same raw counts stored in every numeric type anndata writes,
        # with per-cell totals beyond the range of the narrow integer types
        from mc import sparsegen
        big = np.round(b.raw / max(1.0, b.raw.max()) * 40000.0)
        big[big < 1] = np.where(b.raw > 0, 1, 0)[big < 1]
        small = np.round(b.raw / max(1.0, b.raw.max()) * 200.0)
        small[small < 1] = np.where(b.raw > 0, 1, 0)[small < 1]
        for mat, dtypes, tag in (
                (big, ['float64', 'float32', 'uint16', 'int32', 'uint32',
                       'int64'], 'totals>65535'),
                (small, ['float64', 'uint8', 'int16', 'uint16'],
                 'totals>255')):
            base = None
            for dt in dtypes:
                for enc in ('dense', 'csr'):
                    q = b.dir / f'q_dt_{tag[:8]}_{dt}_{enc}.h5ad'
                    sparsegen.write_h5ad(q, mat, enc, dtype=dt,
                                         obs_ids=list(b.cell_ids),
                                         var_ids=list(b.query_genes))
                    c = scenario.run_mapping(
                        b, dict(f1, normalization='raw', encoding=enc),
                        scratch.new_dir('dt'), query_path=q)
                    n_runs += 1
                    if not _ok(c):
                        viol('dtype-run-failed',
                             f'{tag} {dt} {enc}: {c.error}')
                        continue
                    if base is None:
                        base = c
                        frag = mapcheck.fragile_cells(b, c.config)
                        continue
                    for d in mapcheck.compare_results(
                            base.blob['results'], c.blob['results'], levels,
                            tol=1e-6, skip=frag)[:2]:
                        viol('stored-dtype-changes-mapping',
                             f'{tag}: raw counts stored as {dt} ({enc}) vs '
                             f'float64: {d}')
                    keys.append(f'{shape_s}|dtype|{tag}|{dt}|{enc}')
        sample = {'relation': 'numeric type of the stored raw counts',
                  'max_total': float(big.sum(axis=1).max())}

    elif rel == 'scale':
        a = scenario.run_mapping(b, dict(f1, normalization='raw'),
                                 scratch.new_dir('a'))
        n_runs += 1
        if not _ok(a):
            viol('run-failed', str(a.error))
        else:
            frag = mapcheck.fragile_cells(b, a.config)
            for vi, vec in enumerate(itertools.product(SCALES, repeat=3)):
                if vi % 5 != case.get('part', vi % 5):
                    continue
                mat = b.raw * np.array(vec)[:, None]
                q = scenario.write_query(b, 'raw', 'dense',
                                         name=f'q_scale_{vi}.h5ad',
                                         matrix=mat)
                c = scenario.run_mapping(
                    b, dict(f1, normalization='raw',
                            encoding='dense'), scratch.new_dir('s'),
                    query_path=q)
                n_runs += 1
                if not _ok(c):
                    viol('scaled-run-failed', f'{vec}: {c.error}')
                    continue
                for d in mapcheck.compare_results(
                        a.blob['results'], c.blob['results'], levels,
                        tol=1e-9, skip=frag)[:2]:
                    viol('scale-changes-mapping', f'scales {vec}: {d}')
                keys.append(f'{shape_s}|scale|{vec}')
            sample = {'relation': 'per-cell scale factors', 'n_vectors': 125}

    elif rel == 'perm':
        genes0 = list(b.query_genes)
        for norm, factor in [(('raw', 0.5), ('log2CPM', 0.5),
                              ('raw', 1.0))[case.get('part', 0)]]:
            cfg = {'normalization': norm, 'factor': factor, 'iterations': 3}
            base = scenario.run_mapping(b, cfg, scratch.new_dir('a'))
            n_runs += 1
            if not _ok(base):
                viol('run-failed', str(base.error))
                continue
            matrix = b.raw if norm == 'raw' else b.log2cpm
            for pi, perm in enumerate(itertools.permutations(
                    range(len(genes0)))):
                if norm == 'raw' and factor == 1.0 and pi % 4:
                    continue
                genes = [genes0[i] for i in perm]
                q = scenario.write_query(
                    b, norm, ['dense', 'csr', 'csc'][pi % 3],
                    name=f'q_perm_{norm}_{factor}_{pi}.h5ad',
                    matrix=matrix[:, list(perm)], genes=genes)
                c = scenario.run_mapping(b, cfg, scratch.new_dir('p'),
                                         query_path=q)
                n_runs += 1
                if not _ok(c):
                    viol('permuted-run-failed', f'{genes}: {c.error}')
                    continue
                for d in mapcheck.compare_results(
                        base.blob['results'], c.blob['results'], levels,
                        tol=0.0)[:2]:
                    viol('gene-order-changes-mapping',
                         f'{norm} factor={factor} columns {genes} vs '
                         f'{genes0}: {d}')
                if c.blob.get('marker_genes') != base.blob.get(
                        'marker_genes'):
                    viol('gene-order-changes-markers', f'columns {genes}')
                keys.append(f'{shape_s}|perm|{norm}|{factor}|{perm}')
        sample = {'relation': 'all gene-column permutations',
                  'genes': genes0}

    elif rel == 'extra':
        used = set()
        for k in b.marker_table:
            used |= set(b.marker_table[k])
        nonmarker_ref = [g for g in b.ref_genes if g not in used]
        extras_all = ['zz_not_in_ref', 'aa_not_in_ref']
        # a reference gene that is no marker, if the table leaves one
        base_genes = [g for g in b.query_genes
                      if g not in ('q_only_0', 'q_only_1')]
        removable = [g for g in base_genes if g in nonmarker_ref][:1]
        idx = [b.query_genes.index(g) for g in base_genes]
        core_m = b.log2cpm[:, idx]
        cfg = {'normalization': 'log2CPM', 'factor': 0.5, 'iterations': 3}
        q0 = scenario.write_query(b, 'log2CPM', 'dense', name='q_x_base.h5ad',
                                  matrix=core_m, genes=base_genes)
        # memory budgets: the default, and the footprint of one round of
        # float64 chunks of the base query exactly / half of it (a chunking
        # derived from the budget and the NUMBER OF QUERY GENES would move
        # the cells to other random streams when a gene is added)
        fit = (scenario.DEFAULT_CFG['n_processors'] * 8 * len(base_genes)
               * scenario.DEFAULT_CFG['chunk_size']) / 1024**3
        for bi, budget in enumerate((None, fit, fit / 2)):
            def edit(config, budget=budget):
                if budget is not None:
                    config['max_gb'] = budget
            btag = 'max_gb=default' if budget is None else f'max_gb={budget:.3e}'
            base = scenario.run_mapping(b, cfg, scratch.new_dir('a'),
                                        query_path=q0, config_edit=edit)
            n_runs += 1
            if not _ok(base):
                viol('run-failed', f'{btag}: {base.error}')
                continue
            rng = np.random.default_rng(case['seed'] + 11)
            pool = extras_all + ['rm:' + g for g in removable]
            for si, sub in enumerate(domains.subsets(pool, min_size=1)):
                genes = list(base_genes)
                m = core_m
                for e in sub:
                    if e.startswith('rm:'):
                        j = genes.index(e[3:])
                        genes.pop(j)
                        m = np.delete(m, j, axis=1)
                    else:
                        pos = (si + len(genes)) % (len(genes) + 1)
                        genes.insert(pos, e)
                        m = np.insert(m, pos,
                                      np.round(rng.uniform(0, 12, 3), 3),
                                      axis=1)
                q = scenario.write_query(
                    b, 'log2CPM', 'dense', name=f'q_x_{bi}_{si}.h5ad',
                    matrix=m, genes=genes)
                c = scenario.run_mapping(b, cfg, scratch.new_dir('x'),
                                         query_path=q, config_edit=edit)
                n_runs += 1
                if not _ok(c):
                    viol('extra-gene-run-failed',
                         f'{btag} {sub}: {c.error}')
                    continue
                for d in mapcheck.compare_results(
                        base.blob['results'], c.blob['results'], levels,
                        tol=0.0)[:2]:
                    viol('extra-genes-change-mapping', f'{btag} {sub}: {d}')
                keys.append(f'{shape_s}|extra|{btag}|{sub}')
        if True:
            sample = {'relation': 'extra / removed non-marker genes',
                      'pool': pool}

    elif rel == 'negative':
        used = set()
        for k in b.marker_table:
            used |= set(b.marker_table[k])
        for enc in ('dense', 'csr', 'csc'):
            for i in range(b.raw.shape[0]):
                for j, g in enumerate(b.query_genes):
                    if enc != 'dense' and (i + j) % 2:
                        continue
                    mat = np.array(b.raw)
                    mat[i, j] = -1.0
                    q = scenario.write_query(
                        b, 'raw', enc, name=f'q_neg_{enc}_{i}_{j}.h5ad',
                        matrix=mat)
                    c = scenario.run_mapping(
                        b, dict(f1, normalization='raw', encoding=enc),
                        scratch.new_dir('n'), query_path=q)
                    n_runs += 1
                    where = (f'{enc} cell {i} gene {g} '
                             f'(marker: {g in used})')
                    if c.ok:
                        viol('negative-raw-accepted', where)
                    elif c.blob and 'results' in c.blob:
                        viol('negative-raw-results-written', where)
                    keys.append(f'{shape_s}|neg|{enc}|{i}|{j}')
        # the same, with X stored in chunked HDF5 datasets (what anndata
        # writes with compression): the scan for the minimum proceeds
        # block-wise, so the position of the value relative to the block
        # boundaries matters
        from mc import sparsegen
        for enc in ('csr', 'csc', 'dense'):
            for chunks in (1, 2, 3, 5):
                for i in range(b.raw.shape[0]):
                    for j, g in enumerate(b.query_genes):
                        if (i + j + chunks) % 2:
                            continue
                        mat = np.array(b.raw)
                        mat[i, j] = -1.0
                        q = b.dir / f'q_negc_{enc}_{chunks}_{i}_{j}.h5ad'
                        sparsegen.write_h5ad(
                            q, mat, enc, chunks=chunks,
                            obs_ids=list(b.cell_ids),
                            var_ids=list(b.query_genes))
                        c = scenario.run_mapping(
                            b, dict(f1, normalization='raw', encoding=enc),
                            scratch.new_dir('n'), query_path=q)
                        n_runs += 1
                        where = (f'{enc} chunked({chunks}) cell {i} gene '
                                 f'{g} (marker: {g in used})')
                        if c.ok:
                            viol('negative-raw-accepted', where)
                        elif c.blob and 'results' in c.blob:
                            viol('negative-raw-results-written', where)
                        keys.append(f'{shape_s}|negc|{enc}|{chunks}|{i}|{j}')
                        q.unlink()
        sample = {'relation': 'negative raw value at every position',
                  'cells': 3, 'genes': len(b.query_genes)}

    return {'violations': violations[:40], 'keys': keys,
            'outcomes': [rel], 'evaluations': n_runs, 'sample': sample}


def post_check(tot):
    if len(tot['outcomes']) < 5:
        return [{'key': 'vacuous', 'msg': f"relations run: {tot['outcomes']}"}]
    return []
