"""
C17 - flattening or dropping a level equals mapping on the reduced taxonomy.

Paired runs of run_mapping with a common seed: run A reduces the taxonomy
through the configuration (drop_level / flatten); run B maps against a
statistics file written by the generator with the taxonomy that never had the
level (children listed in another order than the library's own reduction
produces).  Bitwise equality at every shared level; the removed levels of A
must be the ancestors (in the stored tree) of the finer assignment.
"""
import itertools

from mc import domains, mapcheck, scenario

PROPERTY = 'C17'
LEVEL = 'exploration'
RULE = ("every tree shape with 2..L levels x every droppable level (top, "
        "middle, last-but-one), flatten, and flatten together with each "
        "droppable level x marker tables {full incl. "
        "entries for removed parents, pruned of removed parents, fallback "
        "(missing / empty parents)} x (factor, iterations) in "
        "{(1,1),(0.5,3)} x min_markers {1,10}; plus drop of a level name "
        "that is not in the tree.  distinct_nontrivial = distinct (shape, "
        "reduction, table, bootstrap) pairs compared")
ASSUMPTIONS = [
    "same rng seed in both runs of a pair; bitwise comparison",
]
CASE_TIMEOUT = 900


def bounds(tier):
    if tier == 'quick':
        return {'max_levels': 3, 'max_leaves': 4, 'schemes': 'BDE'}
    return {'max_levels': 4, 'max_leaves': 5, 'schemes': 'BDE'}


def cases(tier, seed):
    b = bounds(tier)
    for si, (L, n, shape) in enumerate(domains.shapes_up_to(
            b['max_levels'], b['max_leaves'], min_levels=2, min_leaves=2)):
        schemes = b['schemes'] if tier == 'thorough' else \
            b['schemes'][si % 3]
        for scheme in schemes:
            # level names of which each is a string prefix of the next
            prefix_family = (si % 2 == 1) or tier == 'thorough'
            yield {'L': L, 'shape': shape, 'scheme': scheme, 'seed': seed,
                   'prefix_levels': prefix_family}


def _ok(r):
    return r.ok and r.blob and 'results' in r.blob


def evaluate(case, scratch):
    L = case['L']
    shape_s = domains.shape_str(scenario._as_shape(case['shape']))
    violations = []
    keys = []
    n_runs = 0
    sample = None
    base_spec = {'L': L, 'shape': case['shape'], 'scheme': case['scheme'],
                 'n_cells': 4, 'seed': case['seed']}
    if case.get('prefix_levels'):
        base_spec['level_names'] = ['grp', 'grp_sub', 'grp_sub_cl',
                                    'grp_sub_cl_x'][:L]
    reductions = [('drop', i) for i in range(L - 1)] + [('flatten', None)]
    for mmode in ('full', 'fallback'):
        spec_a = dict(base_spec, marker_mode=mmode)
        A = scenario.build(spec_a, scratch.new_dir('A') / 'in')
        full_h = A.model['hierarchy']
        for kind, idx in reductions:
            red = {'drop': idx} if kind == 'drop' else {'flatten': True}
            variants = [('same-table', {}), ('pruned-table',
                                             {'marker_prune': True})]
            if kind == 'flatten':
                variants = [('union-table', {'marker_union': True})]
            for vname, vextra in variants:
                spec_b = dict(base_spec, marker_mode=mmode, reduce=red,
                              **vextra)
                B = scenario.build(spec_b, scratch.new_dir('B') / 'in')
                # flattening combined with a dropped level is still
                # flattening: same expectation
                also_drop = [None] + (list(range(L - 1))
                                      if kind == 'flatten' else [])
                for (factor, it), extra_drop in itertools.product(
                        ((1.0, 1), (0.5, 3)), also_drop):
                    for mmk in (1, 10):
                        if kind == 'flatten' and mmk == 10:
                            continue
                        cfg = {'factor': factor, 'iterations': it,
                               'min_markers': mmk, 'n_runners_up': 2}
                        cfg_a = dict(cfg)
                        if kind == 'drop':
                            cfg_a['drop_level'] = idx
                        else:
                            cfg_a['flatten'] = True
                            if extra_drop is not None:
                                cfg_a['drop_level'] = extra_drop
                        ra = scenario.run_mapping(A, cfg_a,
                                                  scratch.new_dir('ra'))
                        rb = scenario.run_mapping(B, cfg,
                                                  scratch.new_dir('rb'))
                        n_runs += 2
                        desc = (f'{shape_s} scheme={case["scheme"]} '
                                f'markers={mmode}/{vname} {kind}='
                                f'{full_h[idx] if idx is not None else ""} '
                                f'factor={factor} it={it} min_markers={mmk}'
                                + (f' together with drop_level='
                                   f'{full_h[extra_drop]}'
                                   if extra_drop is not None else ''))
                        if _ok(ra) != _ok(rb):
                            violations.append({
                                'key': 'one-run-failed',
                                'msg': f'{desc}: reduced-by-config '
                                       f'{ra.error!r} vs reduced reference '
                                       f'{rb.error!r}'})
                            continue
                        if not _ok(ra):
                            continue
                        shared = B.model['hierarchy']
                        diffs = mapcheck.compare_results(
                            rb.blob['results'], ra.blob['results'], shared,
                            tol=0.0)
                        for d in diffs[:2]:
                            violations.append({
                                'key': f'{kind}-differs-from-reduced-tree',
                                'msg': f'{desc}: {d}'})
                        # removed levels = ancestors in the stored tree
                        for rec in ra.blob['results']:
                            anc = domains.model_ancestors(
                                A.model, rec[full_h[-1]]['assignment'])
                            for lv in full_h:
                                if lv in shared:
                                    continue
                                if rec[lv]['assignment'] != anc[lv]:
                                    violations.append({
                                        'key': 'removed-level-not-ancestor',
                                        'msg': f'{desc}: cell '
                                               f'{rec["cell_id"]} {lv}='
                                               f'{rec[lv]["assignment"]!r} '
                                               f'expected {anc[lv]!r}'})
                        if kind == 'flatten':
                            ma = ra.blob.get('marker_genes', {}).get('None')
                            mb = rb.blob.get('marker_genes', {}).get('None')
                            if ma is None or sorted(ma) != sorted(mb or []):
                                violations.append({
                                    'key': 'flatten-marker-union',
                                    'msg': f'{desc}: {ma} vs {mb}'})
                        keys.append(desc)
                        if sample is None:
                            sample = {'pair': desc,
                                      'first_record_A': ra.blob['results'][0]}
        # a level name the taxonomy does not contain changes nothing
        r0 = scenario.run_mapping(A, {}, scratch.new_dir('r0'))
        n_runs += 1
        # an unrelated name, a proper prefix of an existing level name, and
        # an existing level name with a suffix
        for unknown in ('no_such_level', full_h[0][:-1], full_h[0] + '_'):
            r1 = scenario.run_mapping(A, {'drop_level': unknown},
                                      scratch.new_dir('r1'))
            n_runs += 1
            if _ok(r0) and _ok(r1):
                for d in mapcheck.compare_results(
                        r0.blob['results'], r1.blob['results'], full_h,
                        tol=0.0)[:2]:
                    violations.append({
                        'key': 'unknown-level-changes-result',
                        'msg': f'{shape_s} {mmode} drop_level={unknown!r} '
                               f'(levels {full_h}): {d}'})
                keys.append(f'{shape_s}|{mmode}|unknown-level|{unknown}')
            elif _ok(r0) != _ok(r1):
                violations.append({
                    'key': 'unknown-level-changes-result',
                    'msg': f'{shape_s} {mmode} drop_level={unknown!r}: '
                           f'{r0.error!r} vs {r1.error!r}'})
    return {'violations': violations[:40], 'keys': keys,
            'outcomes': [f'{shape_s}'], 'evaluations': n_runs,
            'sample': sample}


def post_check(tot):
    if len(tot['keys']) < 50:
        return [{'key': 'vacuous', 'msg': 'too few pairs compared'}]
    return []
