"""
C13 - on-disk sparse transposition and reshaping preserve the matrix.

Small-scope exhaustive enumeration on the real functions: every 0/1 pattern
up to r x c, with and without value array, EVERY minor-axis sub-range, both
memory budgets, workers 1..4; a boundary family whose per-slice entry counts
straddle the enforced minimum chunk sizes (100) at every alignment, so the
output is assembled in several passes and a slice's entries arrive in several
load chunks; file-level operations for every row order / column subset / row
selection of small matrices.  Oracle: dense numpy / scipy.
"""
import itertools

import h5py
import numpy as np
import scipy.sparse as sp

from mc import domains, sparsegen

PROPERTY = 'C13'
LEVEL = 'exploration'
RULE = ("(a) serial transposition: every pattern up to RxC x {with, without "
        "values} x every minor sub-range + none x budgets {1e-9, 10}; (b) "
        "boundary family: entry counts per minor slice over "
        "{0,1,50,99,100,101,150}^3 (343 matrices) at budget 1e-9, plus "
        "sub-ranges; (c) parallel transposition: patterns x workers 1..4, "
        "wide matrices (24, 40 minor indices) x workers {3,5,16}; (d) "
        "transpose_by_way_of_disk; (e) pivot / shuffle (all row orders) / "
        "column subset (all subsets) / amalgamate (all ordered row "
        "selections from 2 files) / copy_layer_to_x / "
        "copy_h5_excluding_data.  distinct_nontrivial = distinct (function, "
        "matrix, parameters) instances with >= 1 stored entry")
ASSUMPTIONS = [
    "values are position coded integers stored as float64/float32/int32",
]
CASE_TIMEOUT = 900

BOUNDARY = [0, 1, 50, 99, 100, 101, 150]


def bounds(tier):
    if tier == 'quick':
        return {'max_rows': 3, 'max_cols': 3, 'boundary_rows': 3,
                'file_ops_max': 3}
    return {'max_rows': 4, 'max_cols': 4, 'boundary_rows': 3,
            'file_ops_max': 4}


def cases(tier, seed):
    b = bounds(tier)
    pats = list(sparsegen.all_patterns(b['max_rows'], b['max_cols']))
    step = 40 if tier == 'quick' else 400
    for i in range(0, len(pats), step):
        yield {'kind': 'serial', 'patterns': pats[i:i + step], 'seed': seed}
        yield {'kind': 'parallel', 'patterns': pats[i:i + step][::4],
               'seed': seed}
    combos = list(itertools.product(BOUNDARY, repeat=b['boundary_rows']))
    for i in range(0, len(combos), 12):
        yield {'kind': 'boundary', 'counts': combos[i:i + 12], 'seed': seed}
    for n_minor, workers in ((24, 3), (40, 5), (24, 16), (10, 4), (45, 6)):
        yield {'kind': 'wide', 'n_minor': n_minor, 'workers': workers,
               'seed': seed}
    for r in range(1, b['file_ops_max'] + 1):
        for c in range(1, 4):
            n_pat = 2 ** (r * c)
            # complete up to 6 cells; every 8th pattern (always including
            # the empty, single-entry-free and full ones) beyond, in parts
            parts = 1 if n_pat < 64 else max(8, n_pat // 64)
            for part in range(parts):
                yield {'kind': 'fileops', 'r': r, 'c': c, 'seed': seed,
                       'part': part, 'parts': parts,
                       'stride': 1 if (n_pat <= 64 or tier == 'thorough')
                       else 8}


# ------------------------------------------------------------ helpers

def write_csc_like(path, mat, with_data, dtype=float):
    """mat: (n_minor x n_major) dense; stores the CSC of mat, i.e. the
    compressed columns, whose transposition on disk must give CSR(mat)"""
    s = sp.csc_matrix(mat)
    s.sort_indices()
    with h5py.File(path, 'w') as dst:
        g = dst.create_group('X')
        g.create_dataset('indices', data=s.indices.astype(np.int64))
        g.create_dataset('indptr', data=s.indptr.astype(np.int64))
        if with_data:
            g.create_dataset('data', data=s.data.astype(dtype))


def run_serial(scratch_dir, mat, with_data, max_gb, sl, tag):
    from cell_type_mapper.utils.csc_to_csr import (
        transpose_sparse_matrix_on_disk)
    src = scratch_dir / f'src_{tag}.h5'
    out = scratch_dir / f'out_{tag}.h5'
    write_csc_like(src, mat, with_data)
    with h5py.File(src, 'r') as f:
        transpose_sparse_matrix_on_disk(
            indices_handle=f['X/indices'], indptr_handle=f['X/indptr'],
            data_handle=f['X/data'] if with_data else None,
            indices_max=mat.shape[0], max_gb=max_gb, output_path=out,
            verbose=False, indices_slice=sl)
    with h5py.File(out, 'r') as f:
        indptr = f['indptr'][()]
        indices = f['indices'][()]
        data = f['data'][()] if with_data else None
        has_data = 'data' in f
    src.unlink()
    out.unlink()
    if has_data != with_data:
        return ['data array presence differs'], None
    exp = mat if sl is None else mat[sl[0]:sl[1], :]
    return sparsegen.check_compressed(indptr, indices, data, exp,
                                      'transpose'), None


def run_parallel(scratch_dir, mat, with_data, max_gb, workers, tag):
    from cell_type_mapper.utils.csc_to_csr_parallel import (
        transpose_sparse_matrix_on_disk_v2)
    src = scratch_dir / f'psrc_{tag}.h5'
    out = scratch_dir / f'pout_{tag}.h5'
    tmp = scratch_dir / f'ptmp_{tag}'
    tmp.mkdir()
    write_csc_like(src, mat, with_data)
    transpose_sparse_matrix_on_disk_v2(
        h5_path=src, indices_tag='X/indices', indptr_tag='X/indptr',
        data_tag='X/data' if with_data else None,
        indices_max=mat.shape[0], max_gb=max_gb, output_path=out,
        tmp_dir=tmp, n_processors=workers)
    with h5py.File(out, 'r') as f:
        indptr = f['indptr'][()]
        indices = f['indices'][()]
        data = f['data'][()] if with_data else None
    left = sorted(p.name for p in tmp.iterdir())
    msgs = sparsegen.check_compressed(indptr, indices, data, mat,
                                      f'transpose_v2[{workers}]')
    if left:
        msgs.append(f'scratch not empty: {left}')
    src.unlink()
    out.unlink()
    tmp.rmdir() if not left else None
    return msgs


def _attempt(fn, *args):
    import traceback
    try:
        out = fn(*args)
        if isinstance(out, tuple):
            out = out[0]
        return out
    except Exception as e:
        tb = traceback.format_exc().strip().split('\n')
        return [f'raised {type(e).__name__}: {e} @ {tb[-3].strip()}']


def classify(msg, mat):
    """known-finding key for a failure message"""
    if 'chunk' in msg.lower() and ('positive' in msg or 'greater' in msg
                                   or 'Chunk shape' in msg):
        return 'F2:hdf5-chunk-shape-with-no-or-few-entries'
    return None


# ----------------------------------------------------------- evaluate

def evaluate(case, scratch):
    d = scratch.new_dir('c13')
    kind = case['kind']
    violations = []
    keys = []
    n_eval = 0
    outcomes = set()
    sample = None

    def record(msgs, label, mat):
        for m in msgs[:3]:
            violations.append({
                'key': classify(m, mat) or f'{label.split("|")[0]}-wrong',
                'msg': f'{label}: {m}\nmatrix=\n{np.asarray(mat)}'
                       [:1500]})

    if kind == 'serial':
        for pi, pat in enumerate(case['patterns']):
            mat = sparsegen.pattern_matrix(pat)
            n_minor = mat.shape[0]
            slices = [None] + [(a, b_) for a in range(n_minor)
                               for b_ in range(a + 1, n_minor + 1)]
            for with_data in (True, False):
                for max_gb in (1e-9, 10):
                    for sl in slices:
                        n_eval += 1
                        label = (f'serial|data={with_data}|gb={max_gb}|'
                                 f'slice={sl}')
                        msgs = _attempt(run_serial, d, mat, with_data,
                                        max_gb, sl, f'{pi}')
                        record(msgs, label, mat)
                        if mat.any():
                            keys.append(f'{pat}|{label}')
            # in-memory wrapper
            from cell_type_mapper.utils.csc_to_csr import (
                transpose_by_way_of_disk)
            s = sp.csc_matrix(mat)
            s.sort_indices()
            try:
                n_eval += 1
                ip, ix = transpose_by_way_of_disk(
                    indices=s.indices.astype(np.int64),
                    indptr=s.indptr.astype(np.int64),
                    indices_max=mat.shape[0], max_gb=1e-9, tmp_dir=d)
                record(sparsegen.check_compressed(ip, ix, None, mat,
                                                  'by_way_of_disk'),
                       'by_way_of_disk', mat)
            except Exception as e:
                record([f'raised {type(e).__name__}: {e}'],
                       'by_way_of_disk', mat)
        sample = {'function': 'transpose_sparse_matrix_on_disk',
                  'pattern': case['patterns'][-1]}

    elif kind == 'parallel':
        for pi, pat in enumerate(case['patterns']):
            mat = sparsegen.pattern_matrix(pat)
            for with_data in (True, False):
                for workers in (1, 2, 3, 4):
                    n_eval += 1
                    label = f'parallel|data={with_data}|workers={workers}'
                    msgs = _attempt(run_parallel, d, mat, with_data, 10,
                                    workers, f'{pi}_{workers}_{with_data}')
                    record(msgs, label, mat)
                    if mat.any():
                        keys.append(f'{pat}|{label}')
        sample = {'function': 'transpose_sparse_matrix_on_disk_v2',
                  'pattern': case['patterns'][-1] if case['patterns']
                  else None}

    elif kind == 'boundary':
        for ci, counts in enumerate(case['counts']):
            mat = sparsegen.boundary_matrix(counts, 151)
            for with_data in (True, False):
                sls = [None]
                if ci % 4 == 0:
                    sls += [(0, 2), (1, 3), (1, 2)]
                for sl in sls:
                    n_eval += 1
                    label = (f'boundary|counts={counts}|data={with_data}|'
                             f'slice={sl}')
                    msgs = _attempt(run_serial, d, mat, with_data, 1e-9,
                                    sl, f'b{ci}')
                    record(msgs, label, counts)
                    if mat.any():
                        keys.append(label)
            if ci % 3 == 0:
                for workers in (2, 3):
                    n_eval += 1
                    label = f'boundary-parallel|counts={counts}|w={workers}'
                    msgs = _attempt(run_parallel, d, mat, True, 4e-9,
                                    workers, f'bp{ci}_{workers}')
                    record(msgs, label, counts)
                    keys.append(label)
        sample = {'function': 'transposition over the >100-entry boundary '
                              'family', 'counts': case['counts'][0]}

    elif kind == 'wide':
        n_minor, workers = case['n_minor'], case['workers']
        for n_major in (9, 30):
            mat = sparsegen.wide_matrix(n_minor, n_major,
                                        case['seed'] + n_minor)
            for with_data in (True, False):
                n_eval += 1
                label = (f'wide|minor={n_minor}|major={n_major}|w={workers}|'
                         f'data={with_data}')
                msgs = _attempt(run_parallel, d, mat, with_data, 10, workers,
                                f'w{n_major}_{with_data}')
                record(msgs, label, f'{n_minor}x{n_major}')
                keys.append(label)
            # pivot_csr_h5ad on the same matrix (rows = n_major cells)
            n_eval += 1
            msgs = _attempt(pivot_case, d, mat.T.copy(), workers,
                            f'pv{n_major}')
            record(msgs, f'pivot|{n_major}x{n_minor}|w={workers}',
                   f'{n_major}x{n_minor}')
            keys.append(f'pivot|{n_major}x{n_minor}|w={workers}')
        sample = {'function': 'parallel transposition, wide',
                  'n_minor': n_minor, 'workers': workers}

    elif kind == 'fileops':
        r, c = case['r'], case['c']
        pats = list(sparsegen.all_patterns(r, c))
        pats = [p for p in pats if len(p) == r and len(p[0]) == c]
        keep = []
        for pi, pat in enumerate(pats):
            if pi % case.get('stride', 1) and pi != len(pats) - 1:
                continue
            keep.append(pat)
        pats = [p for i, p in enumerate(keep)
                if i % case.get('parts', 1) == case.get('part', 0)]
        for pi, pat in enumerate(pats):
            mat = sparsegen.pattern_matrix(pat)
            for fn, label in ((shuffle_cases, 'shuffle'),
                              (subset_cases, 'subset-columns'),
                              (pivot_small, 'pivot'),
                              (copy_cases, 'copy'),
                              (amalgamate_cases, 'amalgamate')):
                try:
                    n, msgs = fn(d, mat, f'{pi}')
                except Exception as e:
                    import traceback
                    tb = traceback.format_exc().strip().split('\n')
                    n, msgs = 1, [f'raised {type(e).__name__}: {e} @ '
                                  f'{tb[-3].strip()}']
                n_eval += n
                record(msgs, f'{label}|{r}x{c}', mat)
                if mat.any():
                    keys.append(f'{label}|{pat}')
        sample = {'function': 'file-level operations', 'shape': [r, c],
                  'patterns': len(pats)}
    outcomes.add(kind)
    return {'violations': violations[:60], 'keys': keys,
            'outcomes': sorted(outcomes), 'evaluations': n_eval,
            'sample': sample}


# ------------------------------------------------------ file operations

def _ids(n, p):
    return [f'{p}{i}' for i in range(n)]


def pivot_case(d, mat, workers, tag):
    from cell_type_mapper.utils.anndata_utils import pivot_csr_h5ad
    src = d / f'pv_src_{tag}.h5ad'
    dst = d / f'pv_dst_{tag}.h5ad'
    tmp = d / f'pv_tmp_{tag}'
    tmp.mkdir()
    sparsegen.write_h5ad(src, mat, 'csr')
    pivot_csr_h5ad(src_path=src, dst_path=dst, tmp_dir=tmp,
                   n_processors=workers, max_gb=10)
    msgs = []
    with h5py.File(dst, 'r') as f:
        enc = f['X'].attrs['encoding-type']
        if 'csc' not in str(enc):
            msgs.append(f'pivot wrote encoding {enc}')
        msgs += sparsegen.check_compressed(
            f['X/indptr'][()], f['X/indices'][()], f['X/data'][()],
            mat.T, 'pivot')
    got = sparsegen.read_x_dense(dst)
    if got.shape != mat.shape or not np.array_equal(got, mat):
        msgs.append('pivoted file does not hold the same matrix')
    left = sorted(p.name for p in tmp.iterdir())
    if left:
        msgs.append(f'scratch not empty: {left}')
    return msgs


def pivot_small(d, mat, tag):
    n = 0
    msgs = []
    for workers in (1, 2, 3):
        n += 1
        msgs += _attempt(pivot_case, d, mat, workers, f'{tag}_{workers}')
    return n, msgs


def shuffle_cases(d, mat, tag):
    from cell_type_mapper.utils.anndata_utils import shuffle_csr_h5ad_rows
    from cell_type_mapper.utils.anndata_utils import read_df_from_h5ad
    src = d / f'sh_src_{tag}.h5ad'
    sparsegen.write_h5ad(src, mat, 'csr')
    msgs = []
    n = 0
    for order in itertools.permutations(range(mat.shape[0])):
        n += 1
        dst = d / f'sh_dst_{tag}_{n}.h5ad'
        shuffle_csr_h5ad_rows(src_path=src, dst_path=dst,
                              new_row_order=list(order))
        got = sparsegen.read_x_dense(dst)
        if not np.array_equal(got, mat[list(order), :]):
            msgs.append(f'row order {order}: matrix differs')
        obs = list(read_df_from_h5ad(dst, 'obs').index.values)
        if obs != [f'cell_{i}' for i in order]:
            msgs.append(f'row order {order}: obs {obs}')
        dst.unlink()
    return n, msgs


def subset_cases(d, mat, tag):
    from cell_type_mapper.utils.anndata_utils import subset_csc_h5ad_columns
    from cell_type_mapper.utils.anndata_utils import read_df_from_h5ad
    src = d / f'su_src_{tag}.h5ad'
    sparsegen.write_h5ad(src, mat, 'csc')
    msgs = []
    n = 0
    for cols in domains.subsets(range(mat.shape[1]), min_size=1):
        for order in (list(cols), list(cols)[::-1]):
            n += 1
            dst = d / f'su_dst_{tag}_{n}.h5ad'
            subset_csc_h5ad_columns(src_path=src, dst_path=dst,
                                    chosen_columns=order)
            got = sparsegen.read_x_dense(dst)
            exp = mat[:, sorted(cols)]
            if got.shape != exp.shape or not np.array_equal(got, exp):
                msgs.append(f'columns {order}: matrix differs')
            var = list(read_df_from_h5ad(dst, 'var').index.values)
            if var != [f'gene_{j}' for j in sorted(cols)]:
                msgs.append(f'columns {order}: var {var}')
            dst.unlink()
    return n, msgs


def copy_cases(d, mat, tag):
    from cell_type_mapper.utils.anndata_utils import copy_layer_to_x
    from cell_type_mapper.utils.h5_utils import copy_h5_excluding_data
    msgs = []
    n = 0
    decoy = np.full(mat.shape, -7.0)
    nnz = int((mat != 0).sum())
    for enc in ('dense', 'csr', 'csc'):
        for layer in ('X', 'raw_counts'):
            for chunks in (None, 1, 2):
                if nnz > 1 and (nnz + (layer == 'X')) % 3 != (
                        0 if chunks is None else chunks):
                    continue
                n += 1
                src = d / f'cp_src_{tag}_{n}.h5ad'
                dst = d / f'cp_dst_{tag}_{n}.h5ad'
                sparsegen.write_h5ad(src, mat, enc, layer=layer,
                                     chunks=chunks, extra_layer=decoy)
                copy_layer_to_x(original_h5ad_path=src, new_h5ad_path=dst,
                                layer=layer)
                got = sparsegen.read_x_dense(dst)
                if got.shape != mat.shape or not np.array_equal(got, mat):
                    msgs.append(f'copy_layer_to_x {enc} layer={layer} '
                                f'chunks={chunks}: X differs')
                dst2 = d / f'cp_dst2_{tag}_{n}.h5'
                for max_el in ((1, 3, 100000) if nnz <= 1 else (1 + nnz % 3,)):
                    copy_h5_excluding_data(src_path=src, dst_path=dst2,
                                           max_elements=max_el)
                    got2 = sparsegen.read_x_dense(dst2, layer=layer)
                    if not np.array_equal(got2, mat):
                        msgs.append(f'copy_h5_excluding_data {enc} '
                                    f'max_elements={max_el}: differs')
                    dst2.unlink()
                src.unlink()
                dst.unlink()
    return n, msgs


def amalgamate_cases(d, mat, tag):
    import pandas as pd
    from cell_type_mapper.utils.anndata_utils import amalgamate_h5ad
    msgs = []
    n = 0
    n_rows, n_cols = mat.shape
    mat_b = np.where(mat != 0, mat + 100, 0.0)[::-1].copy()
    var = pd.DataFrame(index=pd.Index([f'gene_{j}' for j in range(n_cols)]))
    combos = (('csr', 'csc'), ('dense', 'csr'), ('csc', 'dense'))
    nnz = int((mat != 0).sum())
    for enc_a, enc_b in ([combos[nnz % 3]] if nnz > 1 else combos):
        pa = d / f'am_a_{tag}_{enc_a}.h5ad'
        pb = d / f'am_b_{tag}_{enc_b}.h5ad'
        sparsegen.write_h5ad(pa, mat, enc_a)
        sparsegen.write_h5ad(pb, mat_b, enc_b, layer='other',
                             extra_layer=np.full(mat.shape, -3.0))
        selections = []
        for k in range(1, n_rows + 1):
            for rows in itertools.permutations(range(n_rows), k):
                selections.append(list(rows))
        for si, rows_a in enumerate(selections):
            rows_b = selections[(si * 7 + 3) % len(selections)]
            for dst_sparse in (True, False):
                if (si + dst_sparse) % 2 and len(selections) > 4:
                    continue
                n += 1
                dst = d / f'am_dst_{tag}_{n}.h5ad'
                tmp = d / f'am_tmp_{tag}_{n}'
                tmp.mkdir()
                obs = pd.DataFrame(index=pd.Index(
                    [f'a{r}' for r in rows_a] + [f'b{r}' for r in rows_b]))
                exp = np.vstack([mat[rows_a, :], mat_b[rows_b, :]])
                try:
                    amalgamate_h5ad(
                        src_rows=[{'path': str(pa), 'rows': rows_a,
                                   'layer': 'X'},
                                  {'path': str(pb), 'rows': rows_b,
                                   'layer': 'other'}],
                        dst_path=dst, dst_obs=obs, dst_var=var,
                        dst_sparse=dst_sparse, tmp_dir=tmp)
                    got = sparsegen.read_x_dense(dst)
                    if got.shape != exp.shape or not np.array_equal(
                            got, exp):
                        msgs.append(f'amalgamate {enc_a}+{enc_b} rows '
                                    f'{rows_a}+{rows_b} sparse={dst_sparse}'
                                    f': got\n{got}\nexpected\n{exp}')
                    left = sorted(p.name for p in tmp.iterdir())
                    if left:
                        msgs.append(f'amalgamate left {left} in scratch')
                except Exception as e:
                    import traceback
                    tb = traceback.format_exc().strip().split('\n')
                    msgs.append(f'amalgamate {enc_a}+{enc_b} rows {rows_a}+'
                                f'{rows_b} sparse={dst_sparse} raised '
                                f'{type(e).__name__}: {e} @ {tb[-3].strip()}')
                from mc import common
                common.close_leaked_h5()
                if dst.exists():
                    dst.unlink()
        # selections from ONE file through two different locations (X and a
        # layer holding another matrix), in both orders
        pc = d / f'am_c_{tag}_{enc_a}.h5ad'
        sparsegen.write_h5ad(pc, mat, enc_a)
        with h5py.File(pc, 'a') as f:
            lg = f.require_group('layers')
            lg.attrs['encoding-type'] = 'dict'
            lg.attrs['encoding-version'] = '0.1.0'
            if enc_b == 'dense':
                ds = lg.create_dataset('other', data=mat_b)
                ds.attrs['encoding-type'] = 'array'
                ds.attrs['encoding-version'] = '0.2.0'
            else:
                sparsegen.write_sparse_group(lg.create_group('other'), mat_b,
                                             enc_b)
        allrows = list(range(n_rows))
        for order in (('X', 'other'), ('other', 'X')):
            for dst_sparse in (True, False):
                n += 1
                dst = d / f'am_dst2_{tag}_{n}.h5ad'
                tmp = d / f'am_tmp2_{tag}_{n}'
                tmp.mkdir()
                obs = pd.DataFrame(index=pd.Index(
                    [f'{order[0]}{r}' for r in allrows]
                    + [f'{order[1]}{r}' for r in allrows[::-1]]))
                src = {'X': mat, 'other': mat_b}
                exp = np.vstack([src[order[0]][allrows, :],
                                 src[order[1]][allrows[::-1], :]])
                try:
                    amalgamate_h5ad(
                        src_rows=[{'path': str(pc), 'rows': allrows,
                                   'layer': order[0]},
                                  {'path': str(pc), 'rows': allrows[::-1],
                                   'layer': order[1]}],
                        dst_path=dst, dst_obs=obs, dst_var=var,
                        dst_sparse=dst_sparse, tmp_dir=tmp)
                    got = sparsegen.read_x_dense(dst)
                    if got.shape != exp.shape or not np.array_equal(
                            got, exp):
                        msgs.append(f'amalgamate one {enc_a} file through '
                                    f'{order} sparse={dst_sparse}: got\n'
                                    f'{got}\nexpected\n{exp}')
                except Exception as e:
                    msgs.append(f'amalgamate one file through {order} '
                                f'raised {type(e).__name__}: {e}')
                from mc import common
                common.close_leaked_h5()
                if dst.exists():
                    dst.unlink()
    return n, msgs


def post_check(tot):
    if len(tot['outcomes']) < 5:
        return [{'key': 'vacuous', 'msg': f"kinds run: {tot['outcomes']}"}]
    return []
