"""
C05 - row access is exact for every on-disk encoding and chunking.

Small-scope exhaustive enumeration on the real row iterators: every 0/1
pattern r x c x {dense, CSR, CSC} x every row chunk size 1..r+1 x EVERY
duplicate-free ordered row list for get_batch; location / numeric type / HDF5
layout / memory budget explored within a deviation bound on top of each
product point; a boundary family whose per-row entry counts straddle the
enforced minimum chunk sizes of the CSC-to-CSR conversion (100); and the
corollary: mapping output and statistics file identical across the three
encodings of the same matrix.
"""
import itertools
import json

import h5py
import numpy as np

from mc import domains, scenario, sparsegen

PROPERTY = 'C05'
LEVEL = 'exploration'
RULE = ("every pattern up to RxC x 3 encodings x row chunk size 1..r+1 "
        "(iteration, get_chunk, [] access) x every duplicate-free ordered "
        "row list (get_batch dense and sparse); deviations (bound d) over "
        "location {X, layer}, dtype {float64,float32,int32,uint16}, HDF5 "
        "layout {contiguous, chunk 1, chunk 2}, max_gb {10, 1e-9}; boundary "
        "family with per-row entry counts over {0,1,50,99,100,101,150}^3 in "
        "CSC at the minimum budget; encodings corollary on mapping and "
        "statistics outputs.  distinct_nontrivial = distinct (pattern, "
        "encoding, configuration) iterator instances with >= 1 stored entry")
ASSUMPTIONS = [
    "row lists are duplicate-free (DESIGN D-b)",
    "values are position-coded integers exactly representable in every "
    "dtype used",
]
CASE_TIMEOUT = 900
BOUNDARY = [0, 1, 50, 99, 100, 101, 150]


def bounds(tier):
    if tier == 'quick':
        return {'max_rows': 3, 'max_cols': 3, 'deviation_bound': 1}
    return {'max_rows': 4, 'max_cols': 3, 'deviation_bound': 2}


def cases(tier, seed):
    b = bounds(tier)
    pats = list(sparsegen.all_patterns(b['max_rows'], b['max_cols']))
    step = 8 if tier == 'quick' else 32
    for i in range(0, len(pats), step):
        yield {'kind': 'patterns', 'patterns': pats[i:i + step],
               'd': b['deviation_bound'], 'seed': seed}
    combos = list(itertools.product(BOUNDARY, repeat=3))
    for i in range(0, len(combos), 10):
        yield {'kind': 'boundary', 'counts': combos[i:i + 10], 'seed': seed}
    for si, (L, n, shape) in enumerate(
            domains.shapes_up_to(2, 3, min_leaves=2)):
        yield {'kind': 'corollary', 'L': L, 'shape': shape, 'seed': seed}


def row_lists(n_rows):
    for k in range(1, n_rows + 1):
        for rows in itertools.permutations(range(n_rows), k):
            yield list(rows)


def check_iterator(path, mat, enc, layer, chunk, max_gb, tmp_dir, label,
                   light=False):
    """all access paths of the real iterator against the dense matrix
    (light: iteration, whole-range get_chunk, and the row lists that reverse
    / rotate all rows - used for configurations that deviate from the
    default, whose full access-path product is covered at the default)"""
    from cell_type_mapper.anndata_iterator.anndata_iterator import (
        AnnDataRowIterator)
    msgs = []
    n_rows, n_cols = mat.shape
    kw = dict(h5ad_path=path, row_chunk_size=chunk, tmp_dir=tmp_dir,
              max_gb=max_gb)
    if layer != 'X':
        kw['layer'] = layer
    it = AnnDataRowIterator(**kw)
    if it.n_rows != n_rows:
        msgs.append(f'{label}: n_rows {it.n_rows} != {n_rows}')
    pieces = []
    prev = 0
    for chunk_data, r0, r1 in it:
        if r0 != prev:
            msgs.append(f'{label}: chunk starts at {r0}, expected {prev}')
        if r1 - r0 > chunk or r1 <= r0:
            msgs.append(f'{label}: chunk ({r0},{r1}) for chunk size {chunk}')
        arr = np.asarray(chunk_data)
        if arr.shape != (r1 - r0, n_cols):
            msgs.append(f'{label}: chunk shape {arr.shape}')
        pieces.append(arr)
        prev = r1
    if prev != n_rows:
        msgs.append(f'{label}: iteration ended at row {prev} of {n_rows}')
    if pieces:
        got = np.vstack(pieces)
        if got.shape != mat.shape or not np.array_equal(
                got.astype(float), mat.astype(float)):
            msgs.append(f'{label}: concatenated chunks differ:\n{got}')
    # sequential iteration interleaved with random access on ONE iterator
    # object: the cursor of the iteration must not move
    it3 = AnnDataRowIterator(**kw)
    got_rows = []
    step = 0
    while True:
        try:
            chunk_data, r0, r1 = next(it3)
        except StopIteration:
            break
        got_rows.append((r0, r1, np.array(chunk_data, dtype=float)))
        k = step % n_rows
        it3.get_chunk(k, min(n_rows, k + 1 + step % 2))
        it3.get_batch([n_rows - 1 - k] + ([k] if k != n_rows - 1 - k
                                          else []))
        it3[k]
        step += 1
        if step > 4 * n_rows + 4:
            msgs.append(f'{label}: interleaved iteration does not end')
            break
    flat = [(a, b) for a, b, _ in got_rows]
    exp_ranges = [(a, min(n_rows, a + chunk))
                  for a in range(0, n_rows, chunk)]
    if flat != exp_ranges:
        msgs.append(f'{label}: iteration interleaved with random access '
                    f'yields row ranges {flat} expected {exp_ranges}')
    elif got_rows and not np.array_equal(
            np.vstack([c for _, _, c in got_rows]), mat.astype(float)):
        msgs.append(f'{label}: iteration interleaved with random access '
                    'yields wrong values')
    del it3
    # random access
    it2 = AnnDataRowIterator(**kw)
    for r0 in range(n_rows):
        if light:
            break
        for r1 in range(r0 + 1, n_rows + 1):
            got = np.asarray(it2.get_chunk(r0, r1)[0])
            if not np.array_equal(got.astype(float),
                                  mat[r0:r1].astype(float)):
                msgs.append(f'{label}: get_chunk({r0},{r1}) differs')
        got = np.asarray(it2[r0][0])
        if not np.array_equal(got.astype(float),
                              mat[r0:r0 + 1].astype(float)):
            msgs.append(f'{label}: [{r0}] differs')
    lists = list(row_lists(n_rows))
    if light:
        allr = list(range(n_rows))
        lists = [allr[::-1], allr[1:] + allr[:1], allr[-1:]]
    for rows in lists:
        for sparse in (False, True):
            got = it2.get_batch(rows, sparse=sparse)
            if sparse:
                got = got.toarray()
            got = np.asarray(got)
            if got.shape != (len(rows), n_cols) or not np.array_equal(
                    got.astype(float), mat[rows].astype(float)):
                msgs.append(f'{label}: get_batch({rows}, sparse={sparse}) '
                            f'= {got.tolist()} expected '
                            f'{mat[rows].tolist()}')
    del it, it2
    return msgs


def classify(m):
    if 'chunk' in m.lower() and ('positive' in m or 'Chunk shape' in m):
        return 'F2:hdf5-chunk-shape-with-no-or-few-entries'
    return None


def evaluate(case, scratch):
    import traceback
    from mc import common
    d = scratch.new_dir('c05')
    violations = []
    keys = []
    n_eval = 0
    sample = None

    def attempt(path, mat, enc, layer, chunk, max_gb, label, light=False):
        tmp = d / 'tmp'
        tmp.mkdir(exist_ok=True)
        try:
            msgs = check_iterator(path, mat, enc, layer, chunk, max_gb, tmp,
                                  label, light=light)
        except Exception as e:
            tb = traceback.format_exc().strip().split('\n')
            msgs = [f'{label}: raised {type(e).__name__}: {e} @ '
                    f'{tb[-3].strip()}']
        common.close_leaked_h5()
        left = sorted(p.name for p in tmp.iterdir())
        if left:
            msgs.append(f'{label}: scratch not empty after the iterator '
                        f'was released: {left}')
            import shutil
            shutil.rmtree(tmp, ignore_errors=True)
        for m in msgs[:3]:
            violations.append({
                'key': classify(m) or 'row-access-wrong',
                'msg': f'{m}\nmatrix=\n{mat}'[:1500]})

    if case['kind'] == 'patterns':
        default = {'layer': 'X', 'dtype': 'float64', 'chunks': None,
                   'max_gb': 10}
        alph = {'layer': ['raw'], 'dtype': ['float32', 'int32', 'uint16'],
                'chunks': [1, 2], 'max_gb': [1e-9]}
        for pi, pat in enumerate(case['patterns']):
            mat = sparsegen.pattern_matrix(pat)
            n_rows = mat.shape[0]
            for enc in ('dense', 'csr', 'csc'):
                for cfg, dev in domains.deviations(default, alph, case['d']):
                    if cfg['max_gb'] != 10 and enc != 'csc':
                        continue
                    # deviations are explored at one row chunk size, the
                    # full chunk-size range at the default configuration
                    chunk_sizes = range(1, n_rows + 2) if not dev else [2]
                    path = d / f'm_{pi}_{enc}_{n_eval}.h5ad'
                    sparsegen.write_h5ad(
                        path, mat, enc, layer=cfg['layer'],
                        dtype=cfg['dtype'], chunks=cfg['chunks'],
                        extra_layer=np.full(mat.shape, -5.0))
                    for chunk in chunk_sizes:
                        n_eval += 1
                        label = (f'{enc} chunk={chunk} '
                                 f'{ {k: cfg[k] for k in dev} }')
                        attempt(path, mat, enc, cfg['layer'], chunk,
                                cfg['max_gb'], label, light=bool(dev))
                        if mat.any():
                            keys.append(f'{pat}|{label}')
                    path.unlink()
        sample = {'kind': 'patterns', 'last_pattern': case['patterns'][-1],
                  'row_lists_for_3_rows': 15}
    elif case['kind'] == 'boundary':
        for ci, counts in enumerate(case['counts']):
            mat = sparsegen.boundary_matrix(counts, 151)
            path = d / f'b_{ci}.h5ad'
            sparsegen.write_h5ad(path, mat, 'csc',
                                 chunks=[None, 64, 7][ci % 3])
            for chunk in (1, 2):
                n_eval += 1
                label = f'csc boundary counts={counts} chunk={chunk}'
                attempt(path, mat, 'csc', 'X', chunk, 1e-9, label)
                keys.append(label)
            path.unlink()
        sample = {'kind': 'boundary', 'counts': case['counts'][0],
                  'n_cols': 151}
    else:
        n_eval, v, k = corollary(case, scratch)
        violations += v
        keys += k
        sample = {'kind': 'corollary', 'shape': domains.shape_str(
            scenario._as_shape(case['shape']))}
    return {'violations': violations[:60], 'keys': keys,
            'outcomes': [case['kind']], 'evaluations': n_eval,
            'sample': sample}


def digest_h5(path):
    """order-free content digest of the numeric/JSON datasets"""
    out = {}
    with h5py.File(path, 'r') as src:
        for k in src.keys():
            if k == 'metadata':
                continue
            v = src[k][()]
            if isinstance(v, bytes):
                out[k] = json.loads(v.decode('utf-8'))
            else:
                out[k] = np.asarray(v).tolist()
    return out


def corollary(case, scratch):
    """mapping and statistics identical across encodings"""
    from mc import mapcheck
    violations = []
    keys = []
    n = 0
    shape_s = domains.shape_str(scenario._as_shape(case['shape']))
    spec = {'L': case['L'], 'shape': case['shape'], 'scheme': 'B',
            'n_cells': 5, 'seed': case['seed'], 'marker_mode': 'full',
            'zero_cell': True}
    b = scenario.build(spec, scratch.new_dir('in') / 'in')
    for norm in ('raw', 'log2CPM'):
        base = None
        for enc in ('dense', 'csr', 'csc'):
            for chunk in (2, 5):
                r = scenario.run_mapping(
                    b, {'normalization': norm, 'encoding': enc,
                        'chunk_size': chunk, 'factor': 0.5, 'iterations': 3},
                    scratch.new_dir('r'))
                n += 1
                if not (r.ok and r.blob and 'results' in r.blob):
                    violations.append({
                        'key': 'encoding-run-failed',
                        'msg': f'{shape_s} {norm} {enc}: {r.error}\n{r.tb}'})
                    continue
                if chunk != 2:
                    continue
                if base is None:
                    base = r
                    continue
                for dmsg in mapcheck.compare_results(
                        base.blob['results'], r.blob['results'],
                        b.model['hierarchy'], tol=0.0)[:2]:
                    violations.append({
                        'key': 'mapping-differs-across-encodings',
                        'msg': f'{shape_s} {norm} dense vs {enc}: {dmsg}'})
                keys.append(f'{shape_s}|map|{norm}|{enc}')
    # reference statistics across encodings
    from cell_type_mapper.diff_exp.precompute_from_anndata import (
        precompute_summary_stats_from_h5ad)
    import anndata
    import pandas as pd
    import scipy.sparse as sp
    rng = np.random.default_rng(case['seed'] + 3)
    n_cells, n_genes = 7, 5
    x = np.round(rng.uniform(0, 30, size=(n_cells, n_genes))) * (
        rng.uniform(size=(n_cells, n_genes)) < 0.6)
    x[3, :] = 0.0
    h = b.model['hierarchy']
    leaves = b.model['leaves']
    obs = {}
    for lv in h:
        obs[lv] = []
    for i in range(n_cells):
        leaf = leaves[i % len(leaves)]
        anc = domains.model_ancestors(b.model, leaf)
        for lv in h:
            obs[lv].append(anc[lv])
    base = None
    for enc in ('dense', 'csr', 'csc'):
        xx = x if enc == 'dense' else (
            sp.csr_matrix(x) if enc == 'csr' else sp.csc_matrix(x))
        a = anndata.AnnData(
            X=xx, obs=pd.DataFrame(obs, index=[f'c{i}' for i in
                                               range(n_cells)]),
            var=pd.DataFrame(index=[f'g{j}' for j in range(n_genes)]))
        p = b.dir / f'ref_{enc}.h5ad'
        a.write_h5ad(p)
        out = b.dir / f'stats_{enc}.h5'
        tmp = scratch.new_dir('pt')
        try:
            precompute_summary_stats_from_h5ad(
                data_path=p, column_hierarchy=list(h), taxonomy_tree=None,
                output_path=out, rows_at_a_time=3, normalization='raw',
                tmp_dir=tmp, n_processors=2)
        except Exception as e:
            violations.append({'key': 'stats-run-failed',
                               'msg': f'{shape_s} {enc}: {e}'})
            continue
        n += 1
        dg = digest_h5(out)
        dg.pop('taxonomy_tree', None)
        if base is None:
            base = dg
        elif json.dumps(dg, sort_keys=True) != json.dumps(base,
                                                          sort_keys=True):
            violations.append({
                'key': 'stats-differ-across-encodings',
                'msg': f'{shape_s}: dense vs {enc} statistics differ'})
        keys.append(f'{shape_s}|stats|{enc}')
    return n, violations, keys


def post_check(tot):
    if len(tot['outcomes']) < 3:
        return [{'key': 'vacuous', 'msg': f"kinds: {tot['outcomes']}"}]
    return []
