"""
Stateless depth-first explorer over choice points with a deviation bound
(DESIGN.md E1).

`run(prefix)` must execute the system once on a fresh state, answering the
i-th choice point with prefix[i] (0 once the prefix is exhausted) and return
(observation, n_options_per_point).  Choice 0 is the default answer; any other
answer costs one deviation.  Replaying a prefix whose entry is out of range is
a hard error (the execution diverged from the one that produced the prefix).
"""


class ReplayDivergence(Exception):
    pass


def explore(run, bound, on_execution, max_executions=None):
    """
    Enumerate every execution reachable with <= bound deviations.

    on_execution(choices, observation) is called once per execution.
    Returns dict(executions, choice_points, capped).
    """
    stats = {'executions': 0, 'choice_points': 0, 'capped': False,
             'max_points': 0}
    stack = [[]]
    while stack:
        prefix = stack.pop()
        obs, options = run(prefix)
        if len(options) < len(prefix):
            raise ReplayDivergence(
                f'prefix {prefix} but only {len(options)} choice points')
        for i, c in enumerate(prefix):
            if c >= options[i]:
                raise ReplayDivergence(
                    f'prefix {prefix}: point {i} has {options[i]} options')
        choices = list(prefix) + [0] * (len(options) - len(prefix))
        stats['executions'] += 1
        stats['choice_points'] += len(options)
        stats['max_points'] = max(stats['max_points'], len(options))
        on_execution(choices, obs)
        if max_executions is not None and \
                stats['executions'] >= max_executions:
            stats['capped'] = bool(stack)
            break
        used = sum(1 for c in prefix if c != 0)
        if bound is not None and used >= bound:
            continue
        # children: deviate at one later point (points before len(prefix)
        # were fixed by an ancestor, which keeps every execution unique)
        for i in range(len(options) - 1, len(prefix) - 1, -1):
            for alt in range(options[i] - 1, 0, -1):
                stack.append(choices[:i] + [alt])
    return stats
