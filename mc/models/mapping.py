"""
Reference model of the hierarchical mapping (DESIGN.md E4).

Deliberately boring: plain dicts for the taxonomy, explicit Pearson
correlation on gene-name-joined vectors, vote counting with admissible sets
under ties.  Shares no code with cell_type_mapper and reads the input files
with h5py / anndata / json only.

Findings are returned as dicts {'prop', 'key', 'msg'} so each check reports the
ones that belong to its own property.
"""
import json
import math

import anndata
import h5py
import numpy as np

from mc import domains

TOL = 1e-9


# ------------------------------------------------------------------ inputs

class Inputs(object):
    pass


def model_from_tree_json(d):
    h = list(d['hierarchy'])
    m = {'hierarchy': h, 'nodes': {}, 'parent': {}, 'children': {}}
    for li, lv in enumerate(h):
        m['nodes'][lv] = list(d[lv].keys())
        m['parent'][lv] = {}
        if li < len(h) - 1:
            m['children'][lv] = {n: list(d[lv][n]) for n in d[lv]}
        else:
            m['children'][lv] = {n: [] for n in d[lv]}
    for li in range(len(h) - 1):
        for n, kids in m['children'][h[li]].items():
            for k in kids:
                m['parent'][h[li + 1]][k] = n
    m['leaves'] = list(m['nodes'][h[-1]])
    return m


def read_inputs(stats_path, marker_path, query_path):
    inp = Inputs()
    with h5py.File(stats_path, 'r') as src:
        inp.tree_json = json.loads(src['taxonomy_tree'][()].decode('utf-8'))
        inp.ref_genes = json.loads(src['col_names'][()].decode('utf-8'))
        c2r = json.loads(src['cluster_to_row'][()].decode('utf-8'))
        n_cells = src['n_cells'][()]
        sums = src['sum'][()]
    inp.model = model_from_tree_json(inp.tree_json)
    inp.leaf_mean = {}
    for leaf in inp.model['leaves']:
        r = c2r[leaf]
        inp.leaf_mean[leaf] = sums[r, :] / max(1, n_cells[r])
    table = json.load(open(marker_path, 'rb'))
    table.pop('metadata', None)
    table.pop('log', None)
    inp.table = table
    a = anndata.read_h5ad(query_path)
    x = a.X
    if hasattr(x, 'toarray'):
        x = x.toarray()
    inp.query_x = np.asarray(x, dtype=float)
    inp.query_genes = [str(g) for g in a.var.index.values]
    inp.cell_ids = [str(c) for c in a.obs.index.values]
    return inp


def log2cpm(raw):
    raw = np.asarray(raw, dtype=float)
    out = np.zeros_like(raw)
    for i in range(raw.shape[0]):
        s = raw[i].sum()
        if not s > 0:
            s = 1.0
        out[i] = np.log2(1.0 + 1.0e6 * raw[i] / s)
    return out


def reduce_model(model, flatten=False, drop_level=None):
    m = model
    if drop_level is not None and drop_level in m['hierarchy']:
        m = domains.model_drop_level(m, drop_level)
    if flatten:
        for lv in list(m['hierarchy'][:-1]):
            m = domains.model_drop_level(m, lv)
    return m


# ------------------------------------------------------- C08 marker model

def consulted_parents(m):
    """parents (key, level, node) of the reduced tree with > 1 children,
    plus their ancestor chains (nearest first, as table keys)"""
    h = m['hierarchy']
    out = []
    if len(m['nodes'][h[0]]) > 1:
        out.append(('None', None, None, []))
    for li, lv in enumerate(h[:-1]):
        for node in m['nodes'][lv]:
            if len(m['children'][lv][node]) > 1:
                anc = []
                cur = node
                for lj in range(li, 0, -1):
                    cur = m['parent'][h[lj]][cur]
                    anc.append(f'{h[lj - 1]}/{cur}')
                out.append((f'{lv}/{node}', lv, node, anc))
    return out


def expected_markers(m, table, query_genes, ref_genes, min_markers,
                     flatten=False):
    """
    The C08 statement as code.

    Returns dict with
      status: 'ok' | 'must_error' | 'unjudged'
      why:    text
      markers: {parent key: set of gene names} for consulted parents (ok)
    """
    q = set(query_genes)
    r = set(ref_genes)
    if flatten:
        union = set()
        for k in table:
            union |= set(table[k])
        table = {'None': sorted(union)}
    unknown = set()
    for k in table:
        unknown |= set(table[k]) - r
    res = {'status': 'ok', 'why': '', 'markers': {}}
    cons = consulted_parents(m)
    any_overlap = any(len(set(table[k]) & q) > 0 for k in table)
    for key, lv, node, anc in cons:
        own = set(table.get(key, [])) & q
        if key == 'None':
            if 'None' not in table or len(table['None']) == 0 or not own:
                return {'status': 'must_error', 'markers': {},
                        'why': 'root has no usable marker'}
            res['markers'][key] = own
            continue
        got = set(own)
        if len(got) < min_markers:
            for a in anc:
                if a not in table:
                    continue
                got |= set(table[a]) & q
                if len(got) >= min_markers:
                    break
            if len(got) < min_markers and 'None' in table:
                got |= set(table['None']) & q
        if not got:
            if min_markers <= 0:
                # no minimum => no fallback is due; what happens to a
                # non-root parent left without any marker is not stated
                res['status'] = 'unjudged'
                res['why'] = f'{key} has no marker and min_markers is 0'
                res['markers'][key] = got
                continue
            return {'status': 'must_error', 'markers': {},
                    'why': f'{key} has no usable marker even after fallback'}
        res['markers'][key] = got
    if not any_overlap and cons:
        return {'status': 'must_error', 'markers': {},
                'why': 'query shares no marker with the table'}
    used_unknown = set()
    for key in res['markers']:
        used_unknown |= res['markers'][key] - r
    if used_unknown:
        return {'status': 'must_error', 'markers': {},
                'why': f'markers {sorted(used_unknown)} unknown to reference'}
    if unknown:
        return {'status': 'must_error', 'markers': {},
                'why': f'table lists {sorted(unknown)} unknown to reference'}
    return res


# ------------------------------------------------------------ correlation

def pearson(u, v):
    """Pearson correlation; 0 when either vector is constant"""
    u = np.asarray(u, dtype=float)
    v = np.asarray(v, dtype=float)
    du = u - u.mean()
    dv = v - v.mean()
    nu = math.sqrt(float((du * du).sum()))
    nv = math.sqrt(float((dv * dv).sum()))
    if nu == 0.0:
        nu = 1.0
    if nv == 0.0:
        nv = 1.0
    return float((du * dv).sum()) / (nu * nv)


def node_vote_model(cell_vec, leaf_vecs, leaf_to_child, subsets):
    """
    cell_vec: {gene: value}; leaf_vecs: {leaf: {gene: value}};
    leaf_to_child: {leaf: child}; subsets: list of gene-name lists.

    Returns per child [lb, ub] votes, per-iteration admissible winners and
    correlations, and whether every iteration had a unique winner.
    """
    children = sorted(set(leaf_to_child.values()))
    lb = {c: 0 for c in children}
    ub = {c: 0 for c in children}
    per_iter = []
    unique = True
    for genes in subsets:
        cv = [cell_vec[g] for g in genes]
        corrs = {leaf: pearson(cv, [leaf_vecs[leaf][g] for g in genes])
                 for leaf in leaf_to_child}
        best = max(corrs.values())
        adm = [leaf for leaf in corrs if corrs[leaf] >= best - TOL]
        adm_children = set(leaf_to_child[leaf] for leaf in adm)
        if len(adm) > 1:
            unique = False
        for c in adm_children:
            ub[c] += 1
        if len(adm_children) == 1:
            lb[next(iter(adm_children))] += 1
        per_iter.append({'adm': adm, 'best': best,
                         'children': adm_children, 'corrs': corrs})
    return {'lb': lb, 'ub': ub, 'iters': per_iter, 'unique': unique,
            'children': children}


# ---------------------------------------------------------------- checking

def _f(prop, key, msg):
    return {'prop': prop, 'key': key, 'msg': msg}


def _is_int_multiple(p, iterations):
    v = p * iterations
    return abs(v - round(v)) < 1e-9, int(round(v))


def check_structure(results, cell_ids, full_model, reduced_model):
    """C01 invariants on the 'results' list"""
    out = []
    h = full_model['hierarchy']
    rh = reduced_model['hierarchy']
    if not isinstance(results, list):
        return [_f('C01', 'results-not-list', f'{type(results)}')]
    if len(results) != len(cell_ids):
        out.append(_f('C01', 'record-count',
                      f'{len(results)} records for {len(cell_ids)} cells'))
    got_ids = [r.get('cell_id') for r in results]
    if got_ids != list(cell_ids):
        out.append(_f('C01', 'cell-order',
                      f'ids {got_ids} expected {list(cell_ids)}'))
    for r in results:
        cid = r.get('cell_id')
        prev = None
        for li, lv in enumerate(h):
            if lv not in r:
                out.append(_f('C01', 'missing-level',
                              f'cell {cid} lacks level {lv}'))
                prev = None
                continue
            a = r[lv].get('assignment')
            if a not in full_model['children'][lv]:
                out.append(_f('C01', 'not-a-node',
                              f'cell {cid}: {a!r} is not a node of {lv}'))
                prev = None
                continue
            if li > 0 and prev is not None:
                if full_model['parent'][lv].get(a) != prev:
                    out.append(_f(
                        'C01', 'path-broken',
                        f'cell {cid}: {lv}={a!r} has parent '
                        f'{full_model["parent"][lv].get(a)!r} but '
                        f'{h[li-1]}={prev!r}'))
            prev = a
            da = r[lv].get('directly_assigned')
            if bool(da) != (lv in rh) or da is None:
                out.append(_f('C01', 'directly-assigned-flag',
                              f'cell {cid} level {lv}: directly_assigned='
                              f'{da!r}, level voted on: {lv in rh}'))
        extra = set(r.keys()) - set(h) - {'cell_id'}
        if extra:
            out.append(_f('C01', 'extra-keys', f'cell {cid}: {extra}'))
    return out


def check_confidence(results, full_model, reduced_model, iterations,
                     n_runners_up):
    """C03 arithmetic contract"""
    out = []
    h = full_model['hierarchy']
    rh = reduced_model['hierarchy']
    for r in results:
        cid = r.get('cell_id')
        if any(lv not in r for lv in h):
            continue
        running = 1.0
        parent = None           # assignment at previous reduced level
        real_choice = {}        # reduced level -> bool
        for li, lv in enumerate(rh):
            rec = r[lv]
            if li == 0:
                sibs = list(reduced_model['nodes'][rh[0]])
            else:
                sibs = list(reduced_model['children'][rh[li - 1]].get(
                    parent, []))
            a = rec.get('assignment')
            p = rec.get('bootstrapping_probability')
            c = rec.get('avg_correlation')
            ra = rec.get('runner_up_assignment')
            rp = rec.get('runner_up_probability')
            rc = rec.get('runner_up_correlation')
            where = f'cell {cid} level {lv}'
            if not isinstance(p, (int, float)) or isinstance(p, bool):
                out.append(_f('C03', 'prob-type', f'{where}: {p!r}'))
                parent = a
                continue
            if ra is None or rp is None or rc is None:
                out.append(_f('C03', 'runner-up-missing',
                              f'{where}: runner-up fields absent on a '
                              'directly assigned level'))
                ra, rp, rc = ra or [], rp or [], rc or []
            if not (len(ra) == len(rp) == len(rc)):
                out.append(_f('C03', 'runner-up-lengths',
                              f'{where}: {len(ra)},{len(rp)},{len(rc)}'))
            if len(ra) > n_runners_up:
                out.append(_f('C03', 'runner-up-too-many',
                              f'{where}: {len(ra)} > {n_runners_up}'))
            if c is None or not isinstance(c, (int, float)) or \
                    not (-1.0 - 1e-9 <= c <= 1.0 + 1e-9):
                out.append(_f('C03', 'corr-range', f'{where}: {c!r}'))
            real_choice[lv] = len(sibs) > 1
            if len(sibs) <= 1:
                if p != 1.0:
                    out.append(_f('C03', 'single-child-prob',
                                  f'{where}: probability {p}'))
                if len(ra) or len(rp) or len(rc):
                    out.append(_f('C03', 'single-child-runners',
                                  f'{where}: runners-up {ra}'))
            else:
                ok, votes = _is_int_multiple(p, iterations)
                if not ok or votes < 1 or votes > iterations:
                    out.append(_f('C03', 'prob-not-votes',
                                  f'{where}: probability {p} is not k/'
                                  f'{iterations} with 1<=k<={iterations}'))
                if len(set(ra)) != len(ra):
                    out.append(_f('C03', 'runner-up-duplicates',
                                  f'{where}: {ra}'))
                for x in ra:
                    if x == a or x not in sibs:
                        out.append(_f('C03', 'runner-up-not-sibling',
                                      f'{where}: runner-up {x!r}, winner '
                                      f'{a!r}, siblings {sibs}'))
                last = p
                tot = p
                for x in rp:
                    okx, vx = _is_int_multiple(x, iterations)
                    if not (x > 0) or not okx:
                        out.append(_f('C03', 'runner-up-prob',
                                      f'{where}: runner-up probability {x}'))
                    if x > last + 1e-12:
                        out.append(_f('C03', 'runner-up-order',
                                      f'{where}: {rp} after winner {p}'))
                    last = x
                    tot += x
                if tot > 1.0 + 1e-9:
                    out.append(_f('C03', 'prob-sum',
                                  f'{where}: winner+runners-up = {tot}'))
                if len(sibs) - 1 <= n_runners_up and abs(tot - 1.0) > 1e-9:
                    out.append(_f('C03', 'prob-sum-incomplete',
                                  f'{where}: all {len(sibs)-1} siblings fit '
                                  f'in {n_runners_up} runners-up but winner+'
                                  f'runners-up = {tot}'))
                if len(sibs) - 1 > n_runners_up and len(ra) < n_runners_up \
                        and abs(tot - 1.0) > 1e-9:
                    out.append(_f('C03', 'runner-up-truncated',
                                  f'{where}: only {len(ra)} of '
                                  f'{n_runners_up} runners-up listed yet '
                                  f'votes sum to {tot}'))
                for x in rc:
                    if not (-1.0 - 1e-9 <= x <= 1.0 + 1e-9):
                        out.append(_f('C03', 'corr-range',
                                      f'{where}: runner-up corr {x}'))
            running *= p
            ag = rec.get('aggregate_probability')
            if ag is None or abs(ag - running) > 1e-12:
                out.append(_f('C03', 'aggregate',
                              f'{where}: aggregate {ag} expected {running}'))
            parent = a
        # single-child correlation: nearest level with a real choice
        for li, lv in enumerate(rh):
            if real_choice.get(lv, True):
                continue
            above = [x for x in rh[:li] if real_choice.get(x)]
            below = [x for x in rh[li + 1:] if real_choice.get(x)]
            c = r[lv].get('avg_correlation')
            if above:
                exp = r[above[-1]].get('avg_correlation')
            elif below:
                exp = r[below[0]].get('avg_correlation')
            else:
                exp = None
            if exp is not None and (c is None or abs(c - exp) > 1e-12):
                out.append(_f('C03', 'single-child-corr',
                              f'cell {cid} level {lv}: correlation {c} '
                              f'expected {exp} (nearest real choice)'))
        # inferred levels copy the voted descendant
        for li, lv in enumerate(h):
            if lv in rh:
                continue
            finer = [x for x in h[li + 1:] if x in rh]
            if not finer:
                continue
            src = r[finer[0]]
            rec = r[lv]
            for k in ('bootstrapping_probability', 'avg_correlation',
                      'aggregate_probability'):
                if rec.get(k) != src.get(k):
                    out.append(_f('C03', 'inferred-numbers',
                                  f'cell {cid} inferred level {lv}: {k}='
                                  f'{rec.get(k)} but {finer[0]} has '
                                  f'{src.get(k)}'))
            ru = [k for k in rec if k.startswith('runner_up')]
            if ru:
                out.append(_f('C03', 'inferred-runner-up',
                              f'cell {cid} inferred level {lv} carries {ru}'))
    return out


def check_votes(results, cell_vectors, leaf_mean, ref_genes, reduced_model,
                markers, iterations, n_runners_up, subsets_for):
    """
    C02.  cell_vectors: {cell id: {gene: log2CPM value}};
    markers: {parent key: set of genes};
    subsets_for(cell_id, parent_key, genes_sorted) -> list of `iterations`
    gene-name lists, or None when the draws are unknown.

    Returns (findings, stats)
    """
    out = []
    stats = {'nodes_checked': 0, 'nodes_ambiguous': 0, 'nodes_skipped': 0,
             'split_votes': 0}
    rh = reduced_model['hierarchy']
    ref_idx = {g: j for j, g in enumerate(ref_genes)}
    for r in results:
        cid = r.get('cell_id')
        if any(lv not in r for lv in rh) or cid not in cell_vectors:
            continue
        parent = None
        for li, lv in enumerate(rh):
            rec = r[lv]
            if li == 0:
                key = 'None'
                sibs = list(reduced_model['nodes'][rh[0]])
            else:
                key = f'{rh[li-1]}/{parent}'
                sibs = list(reduced_model['children'][rh[li - 1]].get(
                    parent, []))
            a = rec.get('assignment')
            if len(sibs) <= 1 or key not in markers:
                parent = a
                continue
            genes = sorted(markers[key])
            subsets = subsets_for(cid, key, genes)
            if subsets is None:
                stats['nodes_skipped'] += 1
                parent = a
                continue
            leaf_to_child = {}
            for s in sibs:
                for leaf in domains.model_leaves_under(reduced_model, lv, s):
                    leaf_to_child[leaf] = s
            leaf_vecs = {leaf: {g: float(leaf_mean[leaf][ref_idx[g]])
                                for g in genes} for leaf in leaf_to_child}
            vm = node_vote_model(cell_vectors[cid], leaf_vecs, leaf_to_child,
                                 subsets)
            stats['nodes_checked'] += 1
            where = f'cell {cid} node {key}'
            p = rec.get('bootstrapping_probability')
            ok, votes = _is_int_multiple(p, iterations)
            if a not in vm['lb']:
                out.append(_f('C02', 'winner-not-child',
                              f'{where}: {a!r} not among {sibs}'))
                parent = a
                continue
            listed = dict(zip(rec.get('runner_up_assignment', []),
                              rec.get('runner_up_probability', [])))
            if not vm['unique']:
                stats['nodes_ambiguous'] += 1
                # interval check only
                if not ok or not (vm['lb'][a] <= votes <= vm['ub'][a]):
                    out.append(_f('C02', 'votes-outside-interval',
                                  f'{where}: winner {a!r} reports {p} '
                                  f'(x{iterations}) but model interval is '
                                  f'[{vm["lb"][a]},{vm["ub"][a]}]'))
                if max(vm['lb'].values()) > vm['ub'][a]:
                    out.append(_f('C02', 'winner-not-plurality',
                                  f'{where}: {a!r} cannot have the most '
                                  f'votes: lb={vm["lb"]} ub={vm["ub"]}'))
                # whichever admissible votes the winner got, its average
                # correlation is a mean of per-iteration best correlations
                # of iterations it may have won
                cand = [it['best'] for it in vm['iters']
                        if a in it['children']]
                c = rec.get('avg_correlation')
                if cand and ok and votes > 0 and (
                        c is None or c < min(cand) - 1e-7
                        or c > max(cand) + 1e-7):
                    out.append(_f('C02', 'avg-correlation',
                                  f'{where}: avg_correlation {c} outside '
                                  f'[{min(cand)}, {max(cand)}], the best '
                                  f'correlations of the iterations {a!r} '
                                  f'may have won'))
                for x, xp in listed.items():
                    okx, vx = _is_int_multiple(xp, iterations)
                    if x in vm['lb'] and not (
                            vm['lb'][x] <= vx <= vm['ub'][x]):
                        out.append(_f('C02', 'votes-outside-interval',
                                      f'{where}: runner-up {x!r} reports '
                                      f'{xp} interval [{vm["lb"][x]},'
                                      f'{vm["ub"][x]}]'))
                parent = a
                continue
            # exact case
            exp_votes = vm['lb']
            corr_sum = {c: 0.0 for c in exp_votes}
            for it in vm['iters']:
                c = next(iter(it['children']))
                corr_sum[c] += it['best']
            top = max(exp_votes.values())
            if len([c for c in exp_votes if exp_votes[c] > 0]) > 1:
                stats['split_votes'] += 1
            if exp_votes[a] != top:
                out.append(_f('C02', 'winner-not-plurality',
                              f'{where}: assigned {a!r} with {exp_votes[a]} '
                              f'model votes; votes={exp_votes}'))
            if not ok or votes != exp_votes[a]:
                out.append(_f('C02', 'probability',
                              f'{where}: probability {p} but model votes '
                              f'{exp_votes[a]}/{iterations}; all {exp_votes}'))
            c = rec.get('avg_correlation')
            if exp_votes[a] > 0:
                exp_c = corr_sum[a] / exp_votes[a]
                if c is None or abs(c - exp_c) > 1e-8:
                    out.append(_f('C02', 'avg-correlation',
                                  f'{where}: avg_correlation {c} expected '
                                  f'{exp_c}'))
            # runners-up: remaining vote getters by non-increasing share
            others = sorted([c2 for c2 in exp_votes
                             if c2 != a and exp_votes[c2] > 0],
                            key=lambda c2: -exp_votes[c2])
            n_list = min(n_runners_up, len(others))
            ra = rec.get('runner_up_assignment', [])
            rp = rec.get('runner_up_probability', [])
            rc = rec.get('runner_up_correlation', [])
            if len(ra) != n_list:
                out.append(_f('C02', 'runner-up-count',
                              f'{where}: {len(ra)} runners-up listed, model '
                              f'has {len(others)} vote getters, requested '
                              f'{n_runners_up}; votes={exp_votes}'))
            exp_sorted = [exp_votes[c2] for c2 in others][:n_list]
            got_sorted = []
            for x, xp, xc in zip(ra, rp, rc):
                okx, vx = _is_int_multiple(xp, iterations)
                got_sorted.append(vx)
                if x not in exp_votes or exp_votes.get(x, 0) != vx \
                        or not okx or vx == 0:
                    out.append(_f('C02', 'runner-up-votes',
                                  f'{where}: runner-up {x!r} reports {xp} '
                                  f'model votes {exp_votes.get(x)}'))
                    continue
                exp_c = corr_sum[x] / exp_votes[x]
                if abs(xc - exp_c) > 1e-8:
                    out.append(_f('C02', 'runner-up-correlation',
                                  f'{where}: runner-up {x!r} correlation '
                                  f'{xc} expected {exp_c}'))
            if got_sorted != exp_sorted and len(ra) == n_list:
                out.append(_f('C02', 'runner-up-order',
                              f'{where}: runner-up votes {got_sorted} '
                              f'expected {exp_sorted}'))
            parent = a
    return out, stats


def check_marker_report(blob_markers, reduced_model, expected, ref_genes):
    """C08: 'marker_genes' of the output lists what the model says is used"""
    out = []
    if blob_markers is None:
        return [_f('C08', 'no-marker-genes', 'output lacks marker_genes')]
    cons = {c[0] for c in consulted_parents(reduced_model)}
    for key in cons:
        got = blob_markers.get(key)
        exp = expected['markers'].get(key, set())
        if got is None:
            out.append(_f('C08', 'reported-missing-parent',
                          f'{key} absent from marker_genes'))
            continue
        if len(got) != len(set(got)):
            out.append(_f('C08', 'reported-duplicates', f'{key}: {got}'))
        if set(got) != set(exp):
            out.append(_f('C08', 'reported-differs',
                          f'{key}: output reports {sorted(got)} but the '
                          f'statement gives {sorted(exp)}'))
    h = reduced_model['hierarchy']
    for lv in h[:-1]:
        for node in reduced_model['nodes'][lv]:
            key = f'{lv}/{node}'
            if key not in cons and blob_markers.get(key):
                out.append(_f('C08', 'reported-for-single-child',
                              f'{key} has one child but reports '
                              f'{blob_markers.get(key)}'))
    return out
