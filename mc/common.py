"""
Shared runner machinery (DESIGN.md E7): case fan-out over worker processes,
violation / known-finding reporting, evidence files, scratch space.

A check is a module in mc.checks exposing

    PROPERTY = 'Cxx'
    LEVEL    = 'exploration' | 'model_checking' | 'fault_enumeration'
    RULE     = text: how cases are enumerated / what makes one non-trivial
    ASSUMPTIONS = [text, ...]
    def cases(tier, seed):      yields JSON-serialisable case dicts
    def evaluate(case, scratch): returns a dict with the optional keys
        violations : list of {'key': finding key, 'msg': text, ...}
        keys       : list of hashable canonical keys of the NON-TRIVIAL
                     sub-cases evaluated (distinct_nontrivial = |union|)
        evaluations: int, number of executions performed for this case
        states / transitions / traces : ints for model-checking levels
        outcomes   : list of hashable observed outcomes (vacuity guard)
        sample     : an example worth showing in the evidence file

Every case is self-contained and deterministic given (case, seed), so
`--replay file` re-evaluates exactly one case without the explorer.
"""
import concurrent.futures
import hashlib
import importlib
import json
import os
import pathlib
import shutil
import signal
import sys
import tempfile
import time
import traceback

VERIF_ROOT = pathlib.Path(__file__).resolve().parent.parent
EVIDENCE_DIR = VERIF_ROOT / 'evidence'
REPLAY_DIR = VERIF_ROOT / 'replays'
KNOWN_FINDINGS = VERIF_ROOT / 'known_findings.json'
REPO = pathlib.Path(os.environ.get('VERIF_REPO', '/repo'))


def env_setup():
    """Pin the ambient nondeterminism the harness does not explore."""
    os.environ.setdefault('OMP_NUM_THREADS', '1')
    os.environ.setdefault('OPENBLAS_NUM_THREADS', '1')
    os.environ.setdefault('MKL_NUM_THREADS', '1')
    os.environ.setdefault('NUMEXPR_NUM_THREADS', '1')
    os.environ['CELL_TYPE_MAPPER_VERIF'] = '1'


def get_seed():
    try:
        return int(os.environ.get('VERIF_SEED', '0'))
    except ValueError:
        return 0


def n_jobs():
    try:
        return max(1, int(os.environ.get('VERIF_JOBS', os.cpu_count() or 4)))
    except ValueError:
        return 4


def scratch_root():
    for cand in ('/dev/shm', tempfile.gettempdir()):
        try:
            if os.path.isdir(cand) and os.access(cand, os.W_OK):
                return cand
        except OSError:
            pass
    return tempfile.gettempdir()


def case_label(case):
    return ' '.join(f'{k}={str(v)[:40]}' for k, v in case.items()
                    if k not in ('patterns', 'counts'))[:200]


def case_digest(obj):
    return hashlib.sha1(
        json.dumps(obj, sort_keys=True, default=str).encode()).hexdigest()[:16]


class Scratch(object):
    """Per-case scratch directory factory; everything is removed on close."""

    def __init__(self, base):
        self.base = pathlib.Path(base)
        self._n = 0

    def new_dir(self, prefix='d'):
        self._n += 1
        p = self.base / f'{prefix}{self._n}'
        p.mkdir(parents=True, exist_ok=True)
        return p

    def wipe(self):
        for child in self.base.iterdir():
            if child.is_dir():
                shutil.rmtree(child, ignore_errors=True)
            else:
                try:
                    child.unlink()
                except OSError:
                    pass
        # names are never reused: a handle leaked by a failed run must not
        # alias a later file of the same name


_WORKER = {}


def _worker_init(module_name, run_dir, redirect_fds=True):
    env_setup()
    # quiet the library (it prints progress) inside workers
    devnull = open(os.devnull, 'w')
    _WORKER['stdout'] = devnull
    sys.stdout = devnull
    import warnings
    warnings.filterwarnings('ignore')
    _WORKER['module'] = importlib.import_module(module_name)
    d = pathlib.Path(tempfile.mkdtemp(dir=run_dir, prefix=f'w{os.getpid()}_'))
    _WORKER['scratch'] = Scratch(d)
    # whatever the library (or multiprocessing: pymp-* directories of Manager
    # servers the harness has to terminate) puts into the DEFAULT temporary
    # directory lands in the run directory and disappears with it
    systmp = pathlib.Path(run_dir) / f'systmp_{os.getpid()}'
    systmp.mkdir(exist_ok=True)
    os.environ['TMPDIR'] = str(systmp)
    tempfile.tempdir = str(systmp)
    if redirect_fds:
        # children forked by the library inherit these: nothing they print
        # reaches (or keeps open) the runner's stdout, and their tracebacks
        # are kept for violation messages
        err_path = pathlib.Path(run_dir) / f'stderr_{os.getpid()}.log'
        _WORKER['stderr_path'] = err_path
        fd_null = os.open(os.devnull, os.O_WRONLY)
        os.dup2(fd_null, 1)
        fd_err = os.open(err_path, os.O_WRONLY | os.O_CREAT | os.O_APPEND)
        os.dup2(fd_err, 2)
        try:
            os.setpgid(0, 0)
        except OSError:
            pass
        try:
            import ctypes
            ctypes.CDLL('libc.so.6').prctl(1, signal.SIGTERM)  # PDEATHSIG
        except Exception:
            pass


def _worker_eval(case):
    mod = _WORKER['module']
    scratch = _WORKER['scratch']
    t0 = time.time()
    try:
        out = mod.evaluate(case, scratch)
        if out is None:
            out = {}
    except Exception:
        out = {'violations': [{
            'key': 'harness-exception',
            'msg': 'evaluate() raised:\n' + traceback.format_exc()}]}
    finally:
        close_leaked_h5()
        scratch.wipe()
    out['_wall'] = time.time() - t0
    return out


def _jsonable(x):
    try:
        json.dumps(x)
        return x
    except TypeError:
        return json.loads(json.dumps(x, default=str))


def load_known_findings(prop):
    if not KNOWN_FINDINGS.exists():
        return []
    data = json.load(open(KNOWN_FINDINGS))
    return [f for f in data.get('findings', [])
            if f.get('property') == prop and f.get('status') == 'known']


class Runner(object):

    def __init__(self, module_name, tier):
        env_setup()
        self.module_name = module_name
        self.mod = importlib.import_module(module_name)
        self.prop = self.mod.PROPERTY
        self.tier = tier
        self.seed = get_seed()
        self.run_dir = tempfile.mkdtemp(
            dir=scratch_root(), prefix=f'verif_{self.prop}_')

    def close(self):
        shutil.rmtree(self.run_dir, ignore_errors=True)

    # -- execution ---------------------------------------------------
    def run_cases(self, cases):
        """Evaluate cases in parallel; yield (case, result)."""
        jobs = n_jobs()
        case_timeout = float(getattr(self.mod, 'CASE_TIMEOUT', 600))
        if jobs == 1 or getattr(self.mod, 'SERIAL', False):
            _worker_init(self.module_name, self.run_dir, redirect_fds=False)
            sys.stdout = sys.__stdout__
            for case in cases:
                saved = sys.stdout
                sys.stdout = _WORKER['stdout']
                try:
                    res = _worker_eval(case)
                finally:
                    sys.stdout = saved
                yield case, res
            return
        ex = concurrent.futures.ProcessPoolExecutor(
            max_workers=jobs,
            initializer=_worker_init,
            initargs=(self.module_name, self.run_dir))
        try:
            pending = {}
            it = iter(cases)
            exhausted = False
            window = jobs * 4
            while True:
                while not exhausted and len(pending) < window:
                    try:
                        case = next(it)
                    except StopIteration:
                        exhausted = True
                        break
                    fut = ex.submit(_worker_eval, case)
                    pending[fut] = [case, None]
                if not pending:
                    break
                done, _ = concurrent.futures.wait(
                    list(pending.keys()), timeout=5.0,
                    return_when=concurrent.futures.FIRST_COMPLETED)
                for fut in done:
                    case, _t = pending.pop(fut)
                    try:
                        res = fut.result()
                    except Exception:
                        res = {'violations': [{
                            'key': 'harness-worker-died',
                            'msg': 'worker died:\n' + traceback.format_exc()}]}
                    yield case, res
                now = time.time()
                for fut, slot in list(pending.items()):
                    case, t_start = slot
                    if not fut.running():
                        continue
                    if t_start is None:
                        # the clock starts when the case leaves the queue
                        slot[1] = now
                        continue
                    if now - t_start > case_timeout + 120:
                        pending.pop(fut)
                        yield case, {'violations': [{
                            'key': 'hang',
                            'msg': f'case exceeded {case_timeout}s'}]}
        finally:
            try:
                for p in list(getattr(ex, '_processes', {}).values()):
                    # each worker leads its own process group: take its
                    # descendants (manager servers, stuck workers) with it
                    try:
                        os.killpg(p.pid, signal.SIGTERM)
                    except (ProcessLookupError, PermissionError):
                        pass
                    if p.is_alive():
                        os.kill(p.pid, signal.SIGTERM)
            except Exception:
                pass
            ex.shutdown(wait=False, cancel_futures=True)

    # -- main --------------------------------------------------------
    def main(self, replay_path=None):
        t0 = time.time()
        known = load_known_findings(self.prop)
        if replay_path is not None:
            blob = json.load(open(replay_path))
            cases = [blob['case']]
            self.seed = blob.get('seed', self.seed)
            os.environ['VERIF_SEED'] = str(self.seed)
        else:
            cases = self.mod.cases(self.tier, self.seed)

        evaluations = 0
        n_cases = 0
        keys = set()
        outcomes = set()
        states = 0
        transitions = 0
        traces = 0
        samples = []
        extra = {}
        violations = []       # (case, violation)
        known_hit = {}
        max_samples = 6
        slow = []
        last_progress = time.time()
        for case, res in self.run_cases(cases):
            n_cases += 1
            if os.environ.get('VERIF_PROGRESS') and \
                    time.time() - last_progress > 60:
                last_progress = time.time()
                print(f'[{self.prop} {self.tier}] {n_cases} cases done, '
                      f'{evaluations} evaluations, '
                      f'{time.time() - t0:.0f}s', file=sys.stderr,
                      flush=True)
            slow.append((res.get('_wall', 0.0), case_label(case)))
            slow = sorted(slow, reverse=True)[:5]
            evaluations += int(res.get('evaluations', 1))
            for k in res.get('keys', []):
                keys.add(k if isinstance(k, (str, int)) else json.dumps(k))
            for k in res.get('outcomes', []):
                outcomes.add(k if isinstance(k, (str, int)) else json.dumps(k))
            states += int(res.get('states', 0))
            transitions += int(res.get('transitions', 0))
            traces += int(res.get('traces', 0))
            for k, v in res.get('extra', {}).items():
                if isinstance(v, (int, float)):
                    extra[k] = extra.get(k, 0) + v
                else:
                    extra[k] = v
            if 'sample' in res and len(samples) < max_samples:
                samples.append(_jsonable(res['sample']))
            for v in res.get('violations', []):
                hit = None
                for f in known:
                    if v.get('key') == f.get('key'):
                        hit = f
                        break
                if hit is not None:
                    known_hit.setdefault(hit['key'], (hit, case, v))
                else:
                    violations.append((case, v))
        if not samples:
            samples = [{'note': 'no case produced a sample'}]

        # vacuity guards declared by the check
        post = getattr(self.mod, 'post_check', None)
        if post is not None and replay_path is None:
            for v in post(dict(evaluations=evaluations, keys=keys,
                               outcomes=outcomes, states=states,
                               transitions=transitions, traces=traces,
                               extra=extra, tier=self.tier)) or []:
                violations.append(({'post_check': True}, v))

        for key, (f, case, v) in sorted(known_hit.items()):
            print(f"KNOWN-FINDING: property={self.prop} {f.get('what', key)}")

        reported = {}
        for case, v in violations:
            vk = v.get('key', 'violation')
            if vk in reported:
                reported[vk]['count'] += 1
                continue
            digest = case_digest([case, vk])
            rdir = REPLAY_DIR / self.prop
            rdir.mkdir(parents=True, exist_ok=True)
            rpath = rdir / f'{digest}.json'
            with open(rpath, 'w') as dst:
                json.dump({'property': self.prop, 'seed': self.seed,
                           'tier': self.tier, 'case': case,
                           'violation': _jsonable(v)}, dst, indent=1,
                          default=str)
            reported[vk] = {'count': 1, 'path': rpath, 'v': v}
        for vk, info in reported.items():
            msg = str(info['v'].get('msg', ''))
            print(f"--- {self.prop} violation key={vk} "
                  f"(x{info['count']})\n{msg[:3000]}")
            print(f"VIOLATION property={self.prop} replay={info['path']}")

        wall = time.time() - t0
        if os.environ.get('VERIF_VERBOSE'):
            for w, lab in slow:
                print(f'  slow case {w:7.1f}s {lab}')
        if replay_path is None:
            self.write_evidence(
                evaluations=evaluations, n_cases=n_cases, keys=keys,
                outcomes=outcomes, states=states, transitions=transitions,
                traces=traces, samples=samples, extra=extra,
                n_violations=len(violations), known=sorted(known_hit),
                wall=wall)
        print(f"{self.prop} {self.tier}: cases={n_cases} "
              f"evaluations={evaluations} distinct_nontrivial={len(keys)} "
              f"outcomes={len(outcomes)} states={states} "
              f"transitions={transitions} traces={traces} "
              f"violations={len(violations)} wall={wall:.1f}s")
        sys.stdout.flush()
        return 1 if violations else 0

    def write_evidence(self, evaluations, n_cases, keys, outcomes, states,
                       transitions, traces, samples, extra, n_violations,
                       known, wall):
        level = self.mod.LEVEL
        cov = {
            'evaluations': int(evaluations),
            'distinct_nontrivial': len(keys),
            'rule': self.mod.RULE,
            'samples': samples,
            'cases': n_cases,
            'distinct_outcomes': len(outcomes),
            'exhaustive': bool(getattr(self.mod, 'EXHAUSTIVE', True)),
            'bounds': _jsonable(getattr(self.mod, 'bounds', lambda t: {})(
                self.tier)),
        }
        if level == 'model_checking' or states:
            cov['states'] = int(states)
            cov['transitions'] = int(transitions)
            cov['traces_validated_against_impl'] = int(traces)
        for k, v in extra.items():
            cov.setdefault(k, _jsonable(v))
        ev = {
            'property_id': self.prop,
            'tier': self.tier,
            'seed': self.seed,
            'level': level,
            'coverage': cov,
            'assumptions': list(getattr(self.mod, 'ASSUMPTIONS', [])),
            'wall_s': round(wall, 2),
            'violations': int(n_violations),
            'known_findings_seen': known,
            'repo_head': _repo_head(),
        }
        EVIDENCE_DIR.mkdir(exist_ok=True)
        tmp = EVIDENCE_DIR / f'.{self.prop}.json.tmp'
        with open(tmp, 'w') as dst:
            json.dump(ev, dst, indent=1, default=str)
        os.replace(tmp, EVIDENCE_DIR / f'{self.prop}.json')


def _repo_head():
    try:
        import subprocess
        head = subprocess.run(
            ['git', '-C', str(REPO), 'rev-parse', '--short', 'HEAD'],
            capture_output=True, text=True, timeout=20).stdout.strip()
        dirty = subprocess.run(
            ['git', '-C', str(REPO), 'status', '--porcelain',
             '--untracked-files=no'],
            capture_output=True, text=True, timeout=20).stdout.strip()
        return head + ('+dirty' if dirty else '')
    except Exception:
        return 'unknown'


def stderr_mark():
    """current size of this worker's stderr capture (0 when not captured)"""
    p = _WORKER.get('stderr_path')
    try:
        return os.path.getsize(p) if p else 0
    except OSError:
        return 0


def stderr_since(mark, limit=3000):
    p = _WORKER.get('stderr_path')
    if not p:
        return ''
    try:
        with open(p, 'rb') as src:
            src.seek(mark)
            data = src.read()
        return data.decode('utf-8', 'replace')[-limit:]
    except OSError:
        return ''


def close_leaked_h5():
    """
    Close HDF5 files the code under test left open in this process (its row
    iterators rely on garbage collection).  HDF5 identifies files by inode,
    and tmpfs reuses inode numbers, so a leaked handle of a deleted file can
    make the creation of an unrelated new file fail.
    """
    try:
        # manager server processes the library leaves running inherit open
        # HDF5 descriptors (and their file locks)
        import multiprocessing
        for child in multiprocessing.active_children():
            try:
                child.terminate()
                child.join(2)
            except Exception:
                pass
    except Exception:
        pass
    try:
        import h5py
        if not h5py.h5f.get_obj_ids(types=h5py.h5f.OBJ_FILE):
            return
        # something is still open: first let unreachable iterators go
        # (a full collection is slow, so only now), then close the rest
        import gc
        gc.collect()
        for fid in h5py.h5f.get_obj_ids(types=h5py.h5f.OBJ_FILE):
            try:
                h5py.File(fid).close()
            except Exception:
                pass
    except Exception:
        pass
