"""
Uniform drivers for the parallel stages (used by C04, C14, C19).

A stage object offers
    prepare(scratch, seed)         build inputs once (real upstream stages)
    run(tag) -> obs                run the stage once into fresh output
                                   locations; obs['digest'] is a canonical,
                                   timestamp-free digest of every output
    n_workers / n_proc / idiom     pool parameters of this configuration
    consumer_accepts(obs)          C14: would the next stage take the output?
"""
import json
import pathlib

import h5py
import numpy as np

from mc import domains, mapcheck, refdata, scenario, sparsegen


def _digest_mapping(o):
    blob = o.blob or {}
    d = {'results': blob.get('results'),
         'marker_genes': blob.get('marker_genes'),
         'taxonomy_tree': blob.get('taxonomy_tree')}
    cfg = o.config
    if cfg.get('csv_result_path') and pathlib.Path(
            cfg['csv_result_path']).exists():
        lines = open(cfg['csv_result_path']).read().split('\n')
        d['csv'] = [ln for ln in lines if not ln.startswith('# metadata')]
    if cfg.get('hdf5_result_path') and pathlib.Path(
            cfg['hdf5_result_path']).exists():
        d['hdf5'] = refdata.digest_h5(cfg['hdf5_result_path'])
    return d


class MappingStage(object):
    idiom = 'list'

    def __init__(self, name, n_cells, chunk_size, n_proc, seam='cli',
                 L=2, shape=None, encoding='dense'):
        self.name = name
        self.n_cells = n_cells
        self.chunk_size = chunk_size
        self.n_proc = n_proc
        self.seam = seam
        self.L = L
        self.shape = shape or (((), ()), ((),))
        self.encoding = encoding
        eff = min(max(1, int(np.ceil(n_cells / n_proc))), chunk_size)
        self.n_workers = int(np.ceil(n_cells / eff))
        self.single_pool = True

    def prepare(self, scratch, seed):
        self.scratch = scratch
        spec = {'L': self.L, 'shape': self.shape, 'scheme': 'B',
                'n_cells': self.n_cells, 'seed': seed,
                'marker_mode': 'full'}
        self.b = scenario.build(spec, scratch.new_dir('in') / 'in')
        self.cfg = {'chunk_size': self.chunk_size,
                    'n_processors': self.n_proc, 'factor': 0.5,
                    'iterations': 3, 'encoding': self.encoding}

    def run(self, tag=''):
        out = self.scratch.new_dir('run')
        if self.seam == 'cli':
            o = scenario.run_mapping(self.b, self.cfg, out)
        else:
            o = mapcheck.run_direct(self.b, self.cfg, out)
            from mc import common
            common.close_leaked_h5()
        obs = {'error': o.error, 'tb': o.tb, 'out_dir': out, 'outcome': o}
        obs['digest'] = _digest_mapping(o) if o.ok else None
        return obs

    def failure_findings(self, obs):
        """C14 oracle for a run in which a worker failed"""
        o = obs['outcome']
        msgs = []
        if o.ok:
            msgs.append('the call returned normally')
        if self.seam != 'cli':
            return msgs
        blob = o.blob
        if blob is None:
            msgs.append('no JSON output at all (config/log must be written)')
        else:
            if 'results' in blob:
                msgs.append('JSON contains result records')
            log = blob.get('log', [])
            if any('RAN SUCCESSFULLY' in str(ln) for ln in log):
                msgs.append('JSON log claims success')
        cfg = o.config
        if cfg.get('csv_result_path') and pathlib.Path(
                cfg['csv_result_path']).exists():
            msgs.append('a CSV file was written')
        if cfg.get('hdf5_result_path') and pathlib.Path(
                cfg['hdf5_result_path']).exists():
            with h5py.File(cfg['hdf5_result_path'], 'r') as src:
                if 'assignment' in src or 'cell_id' in src:
                    msgs.append('HDF5 output contains result records')
        lp = pathlib.Path(cfg['log_path'])
        if not lp.exists() or lp.stat().st_size == 0:
            msgs.append('no log file was written')
        elif 'RAN SUCCESSFULLY' in lp.read_text():
            msgs.append('log file claims success')
        return msgs


class RefStage(object):
    """stages fed by a generated reference data set"""
    single_pool = True

    def __init__(self, name, kind, n_proc, **params):
        self.name = name
        self.kind = kind
        self.n_proc = n_proc
        self.params = params
        self.idiom = {'precompute': 'list', 'pmask': 'dict',
                      'refmarkers': 'dict', 'frompmask': 'dict',
                      'qmarkers': 'own', 'transpose': 'list'}[kind]
        self.single_pool = kind in ('precompute', 'pmask', 'transpose')
        self.n_workers = params.get('n_workers')

    def prepare(self, scratch, seed):
        self.scratch = scratch
        d = scratch.new_dir('ref')
        self.tmp = scratch.new_dir('tmp')
        self.ref = refdata.make_reference(
            d / 'data', n_leaves=self.params.get('n_leaves', 7),
            cells_per=self.params.get('cells_per', 3), n_genes=8, seed=seed,
            n_files=self.params.get('n_files', 2))
        if self.kind == 'transpose':
            self.mat = sparsegen.wide_matrix(12, 9, seed + 3)
            self.src = d / 'csc_src.h5'
            from mc.checks import c13
            c13.write_csc_like(self.src, self.mat, True)
            return
        if self.kind != 'precompute':
            self.stats = refdata.run_precompute(
                self.ref, d / 'stats.h5', self.tmp, n_processors=1)
        if self.kind == 'frompmask':
            self.mask = refdata.run_p_mask(self.stats, d / 'mask.h5',
                                           self.tmp, n_processors=1,
                                           n_per=100)
        if self.kind == 'qmarkers':
            self.refm = refdata.run_reference_markers(
                self.stats, d / 'refm.h5', self.tmp, n_processors=1)

    def run(self, tag=''):
        out_dir = self.scratch.new_dir('run')
        out = out_dir / 'out.h5'
        obs = {'error': None, 'tb': None, 'out_dir': out_dir, 'out': out}
        import traceback
        try:
            if self.kind == 'precompute':
                refdata.run_precompute(
                    self.ref, out, self.tmp, n_processors=self.n_proc,
                    rows_at_a_time=self.params.get('rows_at_a_time', 4),
                    copy_data_over=self.params.get('copy_data_over', False))
                obs['digest'] = refdata.digest_h5(out)
            elif self.kind == 'refmarkers':
                refdata.run_reference_markers(
                    self.stats, out, self.tmp, n_processors=self.n_proc)
                obs['digest'] = refdata.digest_h5(out)
            elif self.kind == 'pmask':
                refdata.run_p_mask(self.stats, out, self.tmp,
                                   n_processors=self.n_proc,
                                   n_per=self.params.get('n_per', 6))
                obs['digest'] = refdata.digest_h5(out)
            elif self.kind == 'frompmask':
                refdata.run_markers_from_p_mask(
                    self.stats, self.mask, out, self.tmp,
                    n_processors=self.n_proc, n_valid=3)
                obs['digest'] = refdata.digest_h5(out)
            elif self.kind == 'qmarkers':
                lookup = refdata.run_query_markers(
                    self.refm, self.stats, self.ref.genes, self.tmp,
                    n_processors=self.n_proc,
                    behemoth_cutoff=self.params.get('behemoth_cutoff',
                                                    10 ** 7))
                obs['digest'] = lookup
                obs['lookup'] = lookup
            elif self.kind == 'transpose':
                from cell_type_mapper.utils.csc_to_csr_parallel import (
                    transpose_sparse_matrix_on_disk_v2)
                transpose_sparse_matrix_on_disk_v2(
                    h5_path=self.src, indices_tag='X/indices',
                    indptr_tag='X/indptr', data_tag='X/data',
                    indices_max=self.mat.shape[0], max_gb=10,
                    output_path=out, tmp_dir=self.tmp,
                    n_processors=self.n_proc)
                obs['digest'] = refdata.digest_h5(out)
        except BaseException as e:
            if isinstance(e, KeyboardInterrupt):
                raise
            obs['error'] = f'{type(e).__name__}: {e}'
            obs['tb'] = traceback.format_exc()
            obs['digest'] = None
        obs['scratch_left'] = scenario.list_tree(self.tmp)
        return obs

    def failure_findings(self, obs):
        msgs = []
        if obs['error'] is None:
            msgs.append('the call returned normally')
        out = obs.get('out')
        if self.kind == 'qmarkers':
            if obs['error'] is None:
                msgs.append(f'a lookup was returned: {obs.get("lookup")}')
            return msgs
        if out is not None and pathlib.Path(out).exists():
            ok, why = self.consumer_accepts(out)
            if ok:
                msgs.append(f'a file was left at the output location that '
                            f'the next stage accepts ({why})')
        return msgs

    def consumer_accepts(self, out):
        """would a later stage take this file as complete?"""
        try:
            if self.kind == 'precompute':
                from cell_type_mapper.taxonomy.taxonomy_tree import (
                    TaxonomyTree)
                from cell_type_mapper.diff_exp.score_utils import (
                    read_precomputed_stats)
                try:
                    tree = TaxonomyTree.from_precomputed_stats(out)
                    how = 'taxonomy and statistics readable'
                except Exception:
                    # the reference-marker function takes the taxonomy as
                    # an argument: a file without an embedded taxonomy is
                    # still a complete statistics file to it
                    import json as _json
                    tree = TaxonomyTree(data=_json.loads(_json.dumps(
                        self.ref.tree_data)))
                    how = ("statistics readable with the caller's taxonomy, "
                           "as find_markers_for_all_taxonomy_pairs takes it")
                read_precomputed_stats(out, tree, for_marker_selection=True)
                return True, how
            if self.kind in ('refmarkers', 'frompmask'):
                from cell_type_mapper.marker_selection.marker_array import (
                    MarkerGeneArray)
                MarkerGeneArray.from_cache_path(cache_path=out)
                return True, 'MarkerGeneArray.from_cache_path succeeded'
            if self.kind == 'pmask':
                with h5py.File(out, 'r') as src:
                    for k in ('data', 'indices', 'indptr', 'pair_to_idx',
                              'gene_names'):
                        src[k]
                return True, 'all mask datasets present'
            if self.kind == 'transpose':
                with h5py.File(out, 'r') as src:
                    ip = src['indptr'][()]
                    if ip[-1] != src['indices'].shape[0]:
                        return False, 'inconsistent'
                return True, 'pointer array consistent'
        except Exception as e:
            return False, f'{type(e).__name__}: {e}'
        return False, ''


def stage_catalog(tier):
    """the stage configurations explored; (stage, n_workers, n_proc)"""
    out = [
        MappingStage('mapping_cli_3x2', 6, 2, 2, 'cli'),
        MappingStage('mapping_cli_4x3', 8, 2, 3, 'cli'),
        MappingStage('mapping_cli_4x2_csc', 4, 1, 2, 'cli',
                     encoding='csc'),
        MappingStage('mapping_direct_3x2', 6, 2, 2, 'direct'),
        MappingStage('mapping_direct_4x3', 8, 2, 3, 'direct'),
        RefStage('precompute_2', 'precompute', 2, n_workers=2),
        RefStage('precompute_3', 'precompute', 3, n_workers=3),
        RefStage('precompute_2_copy', 'precompute', 2, n_workers=2,
                 copy_data_over=True),
        # two big clusters whose cells are spread over all four workers:
        # every (cluster, gene) sum is the sum of four partial sums, so the
        # order in which the partial results are added shows in the last
        # bits
        RefStage('precompute_4_bulk', 'precompute', 4, n_workers=4,
                 n_leaves=2, cells_per=10, n_files=1, rows_at_a_time=2),
        RefStage('pmask_4x2', 'pmask', 2, n_per=6, n_workers=4),
        RefStage('pmask_4x3', 'pmask', 3, n_per=6, n_workers=4),
        RefStage('refmarkers_2', 'refmarkers', 2),
        RefStage('frompmask_2', 'frompmask', 2),
        RefStage('qmarkers_2', 'qmarkers', 2),
        RefStage('qmarkers_3', 'qmarkers', 3),
        RefStage('qmarkers_2_behemoth0', 'qmarkers', 2, behemoth_cutoff=0),
        RefStage('qmarkers_3_behemoth1', 'qmarkers', 3, behemoth_cutoff=1),
        RefStage('transpose_2', 'transpose', 2, n_workers=2),
        RefStage('transpose_3', 'transpose', 3, n_workers=3),
    ]
    if tier == 'thorough':
        out += [
            MappingStage('mapping_cli_5x3', 10, 2, 3, 'cli'),
            MappingStage('mapping_cli_4x4', 8, 2, 4, 'cli'),
            MappingStage('mapping_direct_4x4', 8, 2, 4, 'direct'),
            RefStage('refmarkers_3', 'refmarkers', 3),
            RefStage('precompute_4', 'precompute', 4, n_workers=4),
            RefStage('transpose_4', 'transpose', 4, n_workers=4),
            RefStage('frompmask_3', 'frompmask', 3),
            RefStage('qmarkers_4', 'qmarkers', 4),
        ]
    return {s.name: s for s in out}
