---------------------------- MODULE WorkerPool ----------------------------
(***************************************************************************)
(* The fork-per-chunk worker pool that every parallel stage of             *)
(* cell_type_mapper shares:                                                *)
(*                                                                         *)
(*     for chunk in chunks:                                                *)
(*         p = Process(...); p.start(); container.add(p)                   *)
(*         while len(container) >= n_processors:                           *)
(*             container = winnow(container)        \* one polling sweep   *)
(*     while len(container) > 0:                                           *)
(*         container = winnow(container)                                   *)
(*                                                                         *)
(* winnow_process_list polls p.exitcode from the LAST element to the       *)
(* first and removes the finished ones at the end of the sweep;            *)
(* winnow_process_dict polls in insertion order and removes at once.       *)
(* Either raises as soon as it reads a non-zero exit code.                 *)
(*                                                                         *)
(* Environment: whether a worker has finished by the time it is polled.    *)
(* A sweep in which no worker is observed finished leaves the parent       *)
(* exactly where it was (it just sweeps again), so such sweeps are pruned:  *)
(* the last poll of a sweep must answer "finished" if no earlier poll of   *)
(* that sweep did.  Every other completion order and observation timing    *)
(* is a behaviour.  This is the rule implemented by the scheduler in       *)
(* mc/vproc.py, against which every behaviour of this module is replayed.  *)
(***************************************************************************)
EXTENDS Naturals, Sequences, FiniteSets

CONSTANTS NChunks,     \* number of workers that will be dispatched
          NProc,       \* n_processors
          ListIdiom,   \* TRUE: winnow_process_list, FALSE: winnow_process_dict
          FailSet      \* workers that exit non-zero

VARIABLES next,      \* number of workers started so far
          live,      \* the parent's container, in insertion order
          reaped,    \* workers observed finished in the current sweep (list idiom)
          sweep,     \* workers still to be polled in the current sweep
          phase,     \* "dispatch" | "sweepD" | "sweepF" | "done" | "raised"
          sweepYes,  \* some poll of the current sweep answered "finished"
          order      \* history: sequence of workers in the order observed finished

vars == <<next, live, reaped, sweep, phase, sweepYes, order>>

Workers == 0 .. (NChunks - 1)

Reverse(s) == [i \in 1 .. Len(s) |-> s[Len(s) + 1 - i]]
SeqToSet(s) == {s[i] : i \in 1 .. Len(s)}
Without(s, S) == SelectSeq(s, LAMBDA x : x \notin S)
PollOrder(s) == IF ListIdiom THEN Reverse(s) ELSE s

Running == SeqToSet(live) \ reaped

Init == /\ next = 0
        /\ live = <<>>
        /\ reaped = {}
        /\ sweep = <<>>
        /\ phase = "dispatch"
        /\ sweepYes = FALSE
        /\ order = <<>>

\* start the next worker, then decide whether the pool is full
Start == /\ phase = "dispatch"
         /\ next < NChunks
         /\ next' = next + 1
         /\ live' = Append(live, next)
         /\ sweepYes' = FALSE
         /\ reaped' = {}
         /\ IF Len(live') >= NProc
               THEN /\ phase' = "sweepD"
                    /\ sweep' = PollOrder(live')
               ELSE /\ phase' = "dispatch"
                    /\ sweep' = <<>>
         /\ UNCHANGED order

\* everything dispatched: drain
BeginDrain == /\ phase = "dispatch"
              /\ next = NChunks
              /\ IF live = <<>>
                    THEN /\ phase' = "done"
                         /\ sweep' = <<>>
                    ELSE /\ phase' = "sweepF"
                         /\ sweep' = PollOrder(live)
              /\ sweepYes' = FALSE
              /\ UNCHANGED <<next, live, reaped, order>>

Sweeping == phase \in {"sweepD", "sweepF"}

\* the polled worker has finished
PollYes == /\ Sweeping
           /\ sweep # <<>>
           /\ LET w == Head(sweep) IN
              /\ order' = Append(order, w)
              /\ sweepYes' = TRUE
              /\ IF w \in FailSet
                    THEN /\ phase' = "raised"
                         /\ sweep' = <<>>
                         /\ UNCHANGED <<live, reaped>>
                    ELSE /\ phase' = phase
                         /\ sweep' = Tail(sweep)
                         /\ IF ListIdiom
                               THEN /\ reaped' = reaped \cup {w}
                                    /\ live' = live
                               ELSE /\ reaped' = reaped
                                    /\ live' = Without(live, {w})
           /\ UNCHANGED next

\* the polled worker has not finished yet
PollNo == /\ Sweeping
          /\ sweep # <<>>
          /\ LET w == Head(sweep) IN
             /\ sweepYes \/ Len(sweep) > 1
             /\ w \in Running
             /\ sweep' = Tail(sweep)
          /\ UNCHANGED <<next, live, reaped, phase, sweepYes, order>>

\* end of one polling sweep
EndSweep == /\ Sweeping
            /\ sweep = <<>>
            /\ LET l2 == Without(live, reaped) IN
               /\ live' = l2
               /\ reaped' = {}
               /\ IF phase = "sweepD"
                     THEN IF Len(l2) >= NProc
                             THEN /\ phase' = "sweepD"
                                  /\ sweep' = PollOrder(l2)
                             ELSE /\ phase' = "dispatch"
                                  /\ sweep' = <<>>
                     ELSE IF l2 = <<>>
                             THEN /\ phase' = "done"
                                  /\ sweep' = <<>>
                             ELSE /\ phase' = "sweepF"
                                  /\ sweep' = PollOrder(l2)
            /\ sweepYes' = FALSE
            /\ UNCHANGED <<next, order>>

Next == Start \/ BeginDrain \/ PollYes \/ PollNo \/ EndSweep

Spec == Init /\ [][Next]_vars

---------------------------------------------------------------------------
TypeOK == /\ next \in 0 .. NChunks
          /\ SeqToSet(live) \subseteq Workers
          /\ reaped \subseteq SeqToSet(live)
          /\ phase \in {"dispatch", "sweepD", "sweepF", "done", "raised"}

\* never more than NProc workers in flight
Bounded == Len(live) <= NProc

\* workers are dispatched in order and each is observed at most once
Ordered == /\ SeqToSet(live) \subseteq 0 .. (next - 1)
           /\ \A i, j \in 1 .. Len(order) : i # j => order[i] # order[j]

\* a run ends normally iff no worker failed, and then every worker was
\* observed exactly once
DoneOK == phase = "done" =>
             /\ FailSet = {}
             /\ next = NChunks
             /\ SeqToSet(order) = Workers

\* a failed worker that is observed fails the run at once
RaisedOK == phase = "raised" => order[Len(order)] \in FailSet

\* the pool cannot stall: some action is enabled unless the run is over
Progress == (phase \notin {"done", "raised"}) => ENABLED Next
===========================================================================
