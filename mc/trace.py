"""
Harness-side recording of the bootstrap draws and per-node gene lists
(DESIGN.md section 2, "pipeline binding").  Nothing in /repo is changed: the
library reaches numpy's generator factory, `multiprocessing.Process` and
`assemble_query_data` through module attributes, which the harness replaces in
its own process before the pipeline forks its workers.

Events are appended as JSON lines to <trace_dir>/<tag>.jsonl where tag is the
dispatch index of the worker (or 'main').  The trace is never trusted alone:
expected gene sets and expected results come from the oracle.
"""
import json
import multiprocessing
import os
import pathlib

import numpy as np

_STATE = {'dir': None, 'tag': 'main', 'installed': False, 'n_started': 0,
          'orig_default_rng': None, 'orig_process': None,
          'orig_assemble': None}


def _emit(event):
    d = _STATE['dir']
    if d is None:
        return
    with open(pathlib.Path(d) / f"{_STATE['tag']}.jsonl", 'a') as dst:
        dst.write(json.dumps(event) + '\n')


class RecordingGenerator(np.random.Generator):

    def choice(self, a, size=None, replace=True, p=None, axis=0,
               shuffle=True):
        out = super().choice(a, size=size, replace=replace, p=p, axis=axis,
                             shuffle=shuffle)
        try:
            _emit({'ev': 'choice',
                   'n': int(len(a)) if hasattr(a, '__len__') else int(a),
                   'a_is_arange': bool(
                       hasattr(a, '__len__')
                       and np.array_equal(np.asarray(a),
                                          np.arange(len(a)))),
                   'size': None if size is None else int(size),
                   'replace': bool(replace),
                   'out': [int(x) for x in np.atleast_1d(out)]})
        except Exception:
            pass
        return out


def _default_rng(seed=None):
    base = _STATE['orig_default_rng'](seed)
    return RecordingGenerator(base.bit_generator)


def _make_process_class(base):

    class TaggedProcess(base):
        """records dispatch order; tags the child's trace file"""

        def __init__(self, *args, **kwargs):
            super().__init__(*args, **kwargs)
            self._verif_index = _STATE['n_started']
            _STATE['n_started'] += 1
            kw = kwargs.get('kwargs') or {}
            ev = {'ev': 'dispatch', 'index': self._verif_index}
            for k in ('r0', 'r1', 'query_cell_names'):
                if k in kw:
                    v = kw[k]
                    ev[k] = [str(x) for x in v] if isinstance(
                        v, (list, tuple)) else int(v)
            _emit(ev)

        def run(self):
            _STATE['tag'] = f'w{self._verif_index}'
            super().run()

    return TaggedProcess


def install(trace_dir, wrap_process=True):
    """idempotent; call before the pipeline runs, in the same process"""
    import cell_type_mapper.type_assignment.election as election
    trace_dir = pathlib.Path(trace_dir)
    trace_dir.mkdir(parents=True, exist_ok=True)
    _STATE['dir'] = str(trace_dir)
    _STATE['tag'] = 'main'
    _STATE['n_started'] = 0
    if _STATE['installed']:
        return
    _STATE['orig_default_rng'] = np.random.default_rng
    np.random.default_rng = _default_rng
    if hasattr(election, 'assemble_query_data'):
        orig = election.assemble_query_data
        _STATE['orig_assemble'] = orig

        def assemble_query_data(*args, **kwargs):
            out = orig(*args, **kwargs)
            try:
                parent = kwargs.get('parent_node', None)
                fq = kwargs.get('full_query_data', None)
                _emit({'ev': 'node',
                       'parent': None if parent is None else list(parent),
                       'n_cells': None if fq is None else int(fq.n_cells),
                       'query_genes': list(
                           out['query_data'].gene_identifiers),
                       'reference_genes': list(
                           out['reference_data'].gene_identifiers),
                       'reference_leaves': list(
                           out['reference_data'].cell_identifiers),
                       'reference_types': list(out['reference_types'])})
            except Exception:
                pass
            return out

        election.assemble_query_data = assemble_query_data
    if wrap_process:
        _STATE['orig_process'] = multiprocessing.Process
        multiprocessing.Process = _make_process_class(
            multiprocessing.Process)
    _STATE['installed'] = True


def uninstall():
    if not _STATE['installed']:
        return
    import cell_type_mapper.type_assignment.election as election
    np.random.default_rng = _STATE['orig_default_rng']
    if _STATE['orig_assemble'] is not None:
        election.assemble_query_data = _STATE['orig_assemble']
    if _STATE['orig_process'] is not None:
        multiprocessing.Process = _STATE['orig_process']
    _STATE['installed'] = False
    _STATE['dir'] = None


def retarget(trace_dir):
    """point an installed tracer at a fresh directory"""
    trace_dir = pathlib.Path(trace_dir)
    trace_dir.mkdir(parents=True, exist_ok=True)
    _STATE['dir'] = str(trace_dir)
    _STATE['tag'] = 'main'
    _STATE['n_started'] = 0


def read(trace_dir):
    """
    -> {'dispatch': [events], 'workers': {index: [events]}}
    """
    trace_dir = pathlib.Path(trace_dir)
    out = {'dispatch': [], 'workers': {}, 'main': []}
    if not trace_dir.is_dir():
        return out
    for p in sorted(trace_dir.iterdir()):
        evs = [json.loads(ln) for ln in open(p) if ln.strip()]
        if p.stem == 'main':
            out['dispatch'] = [e for e in evs if e['ev'] == 'dispatch']
            out['main'] = [e for e in evs if e['ev'] != 'dispatch']
        else:
            out['workers'][int(p.stem[1:])] = evs
    return out


def group_node_draws(events):
    """
    [(node_event, [choice events that followed it])] in order.
    """
    out = []
    cur = None
    for e in events:
        if e['ev'] == 'node':
            cur = (e, [])
            out.append(cur)
        elif e['ev'] == 'choice' and cur is not None:
            cur[1].append(e)
    return out
