"""
Generated reference data sets (cells x genes with cluster labels) and thin
drivers for the pipeline stages, shared by C04, C09, C11, C12, C14, C18, C19.
Inputs are written with anndata / json only.
"""
import json
import pathlib

import anndata
import h5py
import numpy as np
import pandas as pd
import scipy.sparse as sp

from mc import domains


class Ref(object):
    pass


def make_reference(out_dir, L=2, shape=None, n_leaves=7, cells_per=3,
                   n_genes=8, seed=0, scheme='B', n_files=1,
                   encoding='dense', unlabeled=0, cell_counts=None,
                   profile_shift=0):
    """
    Block-structured, separable raw-count data.  Returns a Ref with
      paths, x (dense, all cells in file order), cell_ids, labels
      (cell -> leaf or None), tree_data (with leaf -> cell ids), model.
    """
    out_dir = pathlib.Path(out_dir)
    out_dir.mkdir(parents=True, exist_ok=True)
    rng = np.random.default_rng(seed * 31 + 5)
    if shape is None:
        # two levels: leaves spread over ceil(n_leaves/3) parents
        groups = []
        left = n_leaves
        while left > 0:
            k = min(3, left)
            groups.append(tuple(() for _ in range(k)))
            left -= k
        shape = tuple(groups) if L == 2 else tuple(() for _ in
                                                   range(n_leaves))
    data, model = domains.realize_tree(L, shape, scheme, seed=seed)
    leaves = model['leaves']
    n_leaves = len(leaves)
    genes = [f'gene_{chr(97 + (j * 7 + seed) % 26)}{j}' for j in
             range(n_genes)]
    if cell_counts is None:
        cell_counts = [cells_per + (i % 2) for i in range(n_leaves)]
    rows = []
    labels = []
    for i0, leaf in enumerate(leaves):
        # profile_shift: same names, the signatures move to other clusters
        i = (i0 + profile_shift) % n_leaves
        base = np.full(n_genes, 2.0)
        base[i % n_genes] = 400.0 + 37 * i
        base[(i * 3 + 1) % n_genes] = 90.0 + 11 * i
        base[(i * 5 + 2) % n_genes] = 0.0
        for c in range(cell_counts[i0]):
            v = np.round(base * (0.7 + 0.6 * rng.uniform(size=n_genes)))
            rows.append(v)
            labels.append(leaf)
    for u in range(unlabeled):
        rows.append(np.round(rng.uniform(0, 50, size=n_genes)))
        labels.append(None)
    order = list(range(len(rows)))
    rng.shuffle(order)              # a cluster is scattered over the file
    x = np.array([rows[i] for i in order])
    labels = [labels[i] for i in order]
    cell_ids = [f'cell_{(i * 13 + 5) % 1000:03d}_{i}' for i in
                range(len(rows))]
    r = Ref()
    r.dir = out_dir
    r.x = x
    r.genes = genes
    r.cell_ids = cell_ids
    r.labels = labels
    r.model = model
    r.hierarchy = model['hierarchy']
    tree = {k: v for k, v in data.items()}
    leaf_level = model['hierarchy'][-1]
    tree[leaf_level] = {leaf: [c for c, lab in zip(cell_ids, labels)
                               if lab == leaf] for leaf in leaves}
    r.tree_data = tree
    # split into files
    n = len(cell_ids)
    bounds = [int(round(k * n / n_files)) for k in range(n_files + 1)]
    r.paths = []
    for k in range(n_files):
        a, b = bounds[k], bounds[k + 1]
        p = out_dir / f'ref_{k}.h5ad'
        write_ref_file(p, x[a:b], cell_ids[a:b], genes, labels[a:b], model,
                       encoding)
        r.paths.append(p)
    r.file_bounds = bounds
    return r


def write_ref_file(path, x, cell_ids, genes, labels, model, encoding):
    obs = {}
    for lv in model['hierarchy']:
        obs[lv] = []
    for lab in labels:
        if lab is None:
            for lv in model['hierarchy']:
                obs[lv].append('unlabeled_' + lv)
        else:
            anc = domains.model_ancestors(model, lab)
            for lv in model['hierarchy']:
                obs[lv].append(anc[lv])
    xx = x
    if encoding == 'csr':
        xx = sp.csr_matrix(x)
    elif encoding == 'csc':
        xx = sp.csc_matrix(x)
    a = anndata.AnnData(
        X=xx, obs=pd.DataFrame(obs, index=pd.Index(cell_ids)),
        var=pd.DataFrame(index=pd.Index(genes)))
    a.write_h5ad(path)


def own_log2cpm(x):
    x = np.asarray(x, dtype=float)
    s = x.sum(axis=1)
    s = np.where(s > 0, s, 1.0)
    return np.log2(1.0 + 1.0e6 * x / s[:, None])


# ------------------------------------------------------------- digests

def digest_h5(path, skip=('metadata',)):
    """canonical content of an HDF5 file: {dataset path: value/list}"""
    out = {}

    def visit(name, obj):
        if isinstance(obj, h5py.Dataset):
            if name in skip or name.split('/')[-1] in skip:
                return
            v = obj[()]
            if isinstance(v, bytes):
                try:
                    out[name] = json.loads(v.decode('utf-8'))
                except ValueError:
                    out[name] = v.decode('utf-8', 'replace')
            else:
                arr = np.asarray(v)
                out[name] = [str(arr.dtype), list(arr.shape),
                             arr.tolist() if arr.size < 20000
                             else hash(arr.tobytes())]
    with h5py.File(path, 'r') as src:
        src.visititems(visit)
    return out


def canon(x):
    return json.dumps(x, sort_keys=True, default=str)


# ------------------------------------------------------- stage drivers

def run_precompute(ref, out_path, tmp_dir, n_processors=2, rows_at_a_time=3,
                   normalization='raw', copy_data_over=False):
    from cell_type_mapper.taxonomy.taxonomy_tree import TaxonomyTree
    from cell_type_mapper.diff_exp.precompute_from_anndata import (
        precompute_summary_stats_from_h5ad_list_and_tree)
    tree = TaxonomyTree(data=json.loads(json.dumps(ref.tree_data)))
    precompute_summary_stats_from_h5ad_list_and_tree(
        data_path_list=[str(p) for p in ref.paths],
        taxonomy_tree=tree,
        output_path=out_path,
        rows_at_a_time=rows_at_a_time,
        normalization=normalization,
        tmp_dir=tmp_dir,
        n_processors=n_processors,
        copy_data_over=copy_data_over)
    return out_path


def run_reference_markers(stats_path, out_path, tmp_dir, n_processors=2,
                          max_gb=10, **kw):
    from cell_type_mapper.taxonomy.taxonomy_tree import TaxonomyTree
    from cell_type_mapper.diff_exp.markers import (
        find_markers_for_all_taxonomy_pairs)
    tree = TaxonomyTree.from_precomputed_stats(stats_path)
    find_markers_for_all_taxonomy_pairs(
        precomputed_stats_path=stats_path, taxonomy_tree=tree,
        output_path=out_path, n_processors=n_processors, tmp_dir=tmp_dir,
        max_gb=max_gb, **kw)
    # what the CLI adds, so that the query-marker stage accepts the file
    with h5py.File(out_path, 'a') as dst:
        if 'metadata' not in dst:
            dst.create_dataset('metadata', data=json.dumps(
                {'precomputed_path': str(stats_path)}).encode('utf-8'))
    return out_path


def run_p_mask(stats_path, out_path, tmp_dir, n_processors=2, n_per=4, **kw):
    from cell_type_mapper.diff_exp.p_value_mask import (
        create_p_value_mask_file)
    create_p_value_mask_file(
        precomputed_stats_path=stats_path, dst_path=out_path,
        n_processors=n_processors, tmp_dir=tmp_dir, n_per=n_per, **kw)
    return out_path


def run_markers_from_p_mask(stats_path, mask_path, out_path, tmp_dir,
                            n_processors=2, max_gb=10, **kw):
    from cell_type_mapper.diff_exp.p_value_markers import (
        find_markers_for_all_taxonomy_pairs_from_p_mask)
    find_markers_for_all_taxonomy_pairs_from_p_mask(
        precomputed_stats_path=stats_path, p_value_mask_path=mask_path,
        output_path=out_path, n_processors=n_processors, tmp_dir=tmp_dir,
        max_gb=max_gb, **kw)
    return out_path


def run_query_markers(ref_marker_path, stats_path, query_genes, tmp_dir,
                      n_processors=2, n_per_utility=2, behemoth_cutoff=10**7,
                      n_per_utility_override=None):
    from cell_type_mapper.taxonomy.taxonomy_tree import TaxonomyTree
    from cell_type_mapper.marker_selection.selection_pipeline import (
        select_all_markers)
    tree = TaxonomyTree.from_precomputed_stats(stats_path)
    lookup, log = select_all_markers(
        marker_cache_path=ref_marker_path,
        query_gene_names=list(query_genes),
        taxonomy_tree=tree,
        n_per_utility=n_per_utility,
        n_processors=n_processors,
        behemoth_cutoff=behemoth_cutoff,
        n_per_utility_override=n_per_utility_override,
        tmp_dir=tmp_dir)
    out = {}
    for k, v in lookup.items():
        key = 'None' if k is None else f'{k[0]}/{k[1]}'
        out[key] = list(v)
    return out
