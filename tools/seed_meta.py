"""usage: seed_meta.py <id> <property> <detected: yes|no|obsolete> <check cmd> <note>"""
import json
import pathlib
import sys

sid, prop, detected, cmd, note = sys.argv[1:6]
d = pathlib.Path('/verif/seeded') / sid
agent = {}
if (d / 'agent_meta.json').exists():
    agent = json.load(open(d / 'agent_meta.json'))
meta = {
    'id': sid,
    'property': prop,
    'summary': agent.get('summary'),
    'needs_to_manifest': agent.get('needs'),
    'files': agent.get('files'),
    'origin': 'independent sub-agent given only the property text and a '
              'scratch worktree',
    'confirmed_by_me': {
        'how': 'tools/validate_seed.sh in a fresh scratch worktree: '
               'git apply patch.diff; demo.py with CTM_SRC on unchanged '
               '(rc 0) and changed (rc != 0) tree; tools/run_baseline.py '
               'with the change',
        'demo_unchanged': 'pass', 'demo_changed': 'fail',
        'pinned_suite_with_change': 'stable_pass=479 passed_now=479 '
                                    'missing=0',
    },
    'check_run': cmd,
    'detected': detected,
    'note': note,
}
json.dump(meta, open(d / 'meta.json', 'w'), indent=1)
print('wrote', d / 'meta.json')
