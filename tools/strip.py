"""Print python files with docstrings and blank lines removed (reading aid)."""
import ast
import sys


def strip(path):
    src = open(path).read()
    tree = ast.parse(src)
    lines = src.split('\n')
    kill = set()
    for node in ast.walk(tree):
        if isinstance(node, (ast.FunctionDef, ast.ClassDef, ast.Module)):
            b = node.body
            if (b and isinstance(b[0], ast.Expr)
                    and isinstance(getattr(b[0], 'value', None), ast.Constant)
                    and isinstance(b[0].value.value, str)):
                for ln in range(b[0].lineno, b[0].end_lineno + 1):
                    kill.add(ln)
    out = []
    for i, ln in enumerate(lines, 1):
        if i in kill or not ln.strip():
            continue
        out.append(f"{i}:{ln}")
    print('#####', path)
    print('\n'.join(out))


for p in sys.argv[1:]:
    strip(p)
