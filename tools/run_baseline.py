"""Run the repository's pinned test-suite (guard OFF) and compare with
/root/.vp/BASELINE.json's stable_pass list.  usage: run_baseline.py [repo]"""
import json
import os
import subprocess
import sys
import tempfile
import xml.etree.ElementTree as ET

repo = sys.argv[1] if len(sys.argv) > 1 else '/repo'
base = json.load(open('/root/.vp/BASELINE.json'))
want = set(base['stable_pass'])
env = dict(os.environ)
env.pop('CELL_TYPE_MAPPER_VERIF', None)
env['PYTHONPATH'] = os.path.join(repo, 'src')
out = tempfile.mktemp(suffix='.xml')
cmd = ['/venv/bin/python', '-m', 'pytest', '-q', '-p', 'no:cacheprovider',
       '--timeout=900', '--continue-on-collection-errors', '-n',
       os.environ.get('BASELINE_JOBS', '12'), f'--junitxml={out}']
p = subprocess.run(cmd, cwd=repo, env=env, capture_output=True, text=True)
passed = set()
for tc in ET.parse(out).getroot().iter('testcase'):
    if any(ch.tag in ('failure', 'error', 'skipped') for ch in tc):
        continue
    passed.add(f"{tc.get('classname')}::{tc.get('name')}")
os.unlink(out)
missing = sorted(want - passed)
print(f'stable_pass={len(want)} passed_now={len(passed)} '
      f'missing={len(missing)}')
for m in missing[:40]:
    print('  NOT PASSING:', m)
sys.exit(1 if missing else 0)
