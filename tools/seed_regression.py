"""
Re-run every stored seeded change against the check recorded in its meta.json
(quick tier, scratch worktree via tools/try_seed.sh) and write
seeded/REGRESSION.md.  usage: seed_regression.py [lanes] [only-prefix ...]
"""
import concurrent.futures
import json
import pathlib
import re
import subprocess
import sys

ROOT = pathlib.Path('/verif/seeded')


def job(sid):
    meta = json.load(open(ROOT / sid / 'meta.json'))
    m = re.search(r'bin/check (C\d\d)', meta.get('check_run', ''))
    if meta.get('detected') != 'yes' or not m:
        return sid, None, meta.get('detected'), ''
    chk = m.group(1)
    p = subprocess.run(['/verif/tools/try_seed.sh', str(ROOT / sid), chk],
                       capture_output=True, text=True)
    keys = sorted(set(re.findall(r'violation key=(\S+)', p.stdout)))
    rc = re.search(r'exit=(\d+)', p.stdout)
    return sid, chk, (rc.group(1) if rc else '?'), ', '.join(keys)


def main():
    lanes = int(sys.argv[1]) if len(sys.argv) > 1 else 3
    only = sys.argv[2:]
    sids = sorted(d.name for d in ROOT.iterdir()
                  if d.is_dir() and (d / 'meta.json').exists())
    if only:
        sids = [s for s in sids if any(s.startswith(o) for o in only)]
    # results accumulate in a file so that a run can be resumed
    store = ROOT / '.regression_results.jsonl'
    done = {}
    if store.exists():
        for line in open(store):
            r = json.loads(line)
            done[r[0]] = tuple(r)
    todo = [s for s in sids if s not in done]
    with concurrent.futures.ThreadPoolExecutor(lanes) as ex:
        for r in ex.map(job, todo):
            done[r[0]] = r
            with open(store, 'a') as dst:
                dst.write(json.dumps(r) + '\n')
            print(r, flush=True)
    all_sids = sorted(d.name for d in ROOT.iterdir()
                      if d.is_dir() and (d / 'meta.json').exists())
    rows = [done[s] for s in all_sids if s in done]
    out = ['# Seeded changes re-run against the final checks (quick tier)',
           '', '| seed | check | exit | violation keys |', '|---|---|---|---|']
    for sid, chk, rc, keys in rows:
        out.append(f'| {sid} | {chk or "-"} | {rc} | {keys} |')
    missed = [r for r in rows if r[1] and r[2] != '1']
    out += ['', f'{len([r for r in rows if r[1]])} changes run, '
            f'{len(missed)} not reported: {[r[0] for r in missed]}']
    (ROOT / 'REGRESSION.md').write_text('\n'.join(out) + '\n')


if __name__ == '__main__':
    main()
