#!/bin/sh
# usage: tools/try_seed.sh <ABSOLUTE seed dir with patch.diff> <Cxx> [tier]
# applies the patch to a scratch worktree of /repo (never to /repo itself, so
# that other checks may run meanwhile), runs the check against it with
# VERIF_REPO, removes the worktree.  The evidence file is saved and restored.
SEED="$1"; PID="$2"; TIER="${3:-quick}"
cd /verif || exit 2
WT="/tmp/tryseed_wt_$$"
git -C /repo worktree add --detach "$WT" HEAD -q || exit 2
git -C "$WT" apply "$SEED/patch.diff" 2>/dev/null || git -C "$WT" apply --3way "$SEED/patch.diff" 2>/dev/null || { git -C /repo worktree remove --force "$WT"; echo "patch does not apply"; exit 2; }
cp "evidence/$PID.json" "/tmp/evidence_$PID.keep.$$" 2>/dev/null
VERIF_REPO="$WT" bin/check "$PID" "$TIER" > "/tmp/try_${PID}_$$.out" 2>&1
RC=$?
[ -f "/tmp/evidence_$PID.keep.$$" ] && mv "/tmp/evidence_$PID.keep.$$" "evidence/$PID.json"
git -C /repo worktree remove --force "$WT"
grep -E "^--- $PID|^VIOLATION|^KNOWN|^$PID " "/tmp/try_${PID}_$$.out" | head -12
rm -f "/tmp/try_${PID}_$$.out"
echo "exit=$RC"
