#!/bin/sh
# usage: tools/try_seed.sh <seed dir with patch.diff> <Cxx> [tier]
# applies the patch to /repo, runs the check, reverts. Prints summary lines.
SEED="$1"; PID="$2"; TIER="${3:-quick}"
cd /verif || exit 2
git -C /repo diff --quiet || { echo "repo dirty"; exit 2; }
git -C /repo apply "$SEED/patch.diff" 2>/dev/null || git -C /repo apply --3way "$SEED/patch.diff" 2>/dev/null || { git -C /repo checkout -- . ; git -C /repo reset -q; echo "patch does not apply"; exit 2; }
cp "evidence/$PID.json" "/tmp/evidence_$PID.keep" 2>/dev/null
bin/check "$PID" "$TIER" > "/tmp/try_${PID}.out" 2>&1
RC=$?
[ -f "/tmp/evidence_$PID.keep" ] && mv "/tmp/evidence_$PID.keep" "evidence/$PID.json"
git -C /repo reset -q; git -C /repo checkout -- .
grep -E "^--- $PID|^VIOLATION|^KNOWN|^$PID " "/tmp/try_${PID}.out" | head -12
echo "exit=$RC"
