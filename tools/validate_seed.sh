#!/bin/sh
# usage: tools/validate_seed.sh <seedout dir> <seed id, e.g. C10-1>
# Confirms independently, in a scratch worktree: patch applies, demo passes
# unchanged and fails changed, pinned suite passes with the change.
# On success copies the artefacts to /verif/seeded/<id>/.
SRC="$1"; ID="$2"
WT=/tmp/wt/validate_$$
git -C /repo worktree add --detach "$WT" HEAD -q || exit 2
trap 'git -C /repo worktree remove --force "$WT" >/dev/null 2>&1' EXIT
cd "$WT" || exit 2
DEMO="$SRC/demo.py"
run_demo() {
  if grep -q "^def test_\|^import pytest\|^    def test_" "$DEMO" && ! grep -q "__main__" "$DEMO"; then
    CTM_SRC="$WT/src" PYTHONPATH="$WT/src" timeout 600 /venv/bin/python -m pytest -q -p no:cacheprovider "$DEMO" >/tmp/demo_$$.out 2>&1
  else
    CTM_SRC="$WT/src" PYTHONPATH="$WT/src" timeout 600 /venv/bin/python "$DEMO" >/tmp/demo_$$.out 2>&1
  fi
}
run_demo; U=$?
git apply "$SRC/patch.diff" || { echo "RESULT $ID patch-does-not-apply"; exit 1; }
run_demo; C=$?
tail -3 /tmp/demo_$$.out | cut -c1-300
B=$(BASELINE_JOBS=10 /venv/bin/python /verif/tools/run_baseline.py "$WT" | head -1)
echo "demo_unchanged_rc=$U demo_changed_rc=$C baseline: $B"
rm -f /tmp/demo_$$.out
case "$B" in *"missing=0"*) BOK=1;; *) BOK=0;; esac
if [ "$U" = 0 ] && [ "$C" != 0 ] && [ "$BOK" = 1 ]; then
  mkdir -p "/verif/seeded/$ID"
  cp "$SRC/patch.diff" "$SRC/demo.py" "/verif/seeded/$ID/"
  cp "$SRC/meta.json" "/verif/seeded/$ID/agent_meta.json" 2>/dev/null
  echo "RESULT $ID confirmed"
else
  echo "RESULT $ID rejected"
fi
