"""Regenerate MANIFEST.json from the table below (keeps it valid at all times)."""
import json
import pathlib

ROOT = pathlib.Path(__file__).resolve().parent.parent

CHECKS = json.load(open(ROOT / 'tools' / 'checks_table.json'))

props = [json.loads(l) for l in open(ROOT / 'properties.jsonl')]
ids = [p['id'] for p in props]

manifest = {
    'version': 1,
    'setup_cmd': 'sh bin/setup',
    'hooks': {
        'guard': 'CELL_TYPE_MAPPER_VERIF',
        'enable': 'export CELL_TYPE_MAPPER_VERIF=1 (bin/check does it); the '
                  'package is an editable install so /repo/src is used as is',
        'baseline_off_cmd': 'cd /repo && env -u CELL_TYPE_MAPPER_VERIF '
                            '/venv/bin/python -m pytest -ra -q -p '
                            'no:cacheprovider --timeout=900 '
                            '--continue-on-collection-errors',
        'source_commits': CHECKS.get('hook_commits', []),
        'add_only': True,
    },
    'engines': CHECKS.get('engines', []),
    'checks': [],
    'notes': CHECKS.get('notes', ''),
    'not_applicable': [],
}
for pid in ids:
    c = CHECKS['checks'].get(pid)
    if c is None:
        manifest['not_applicable'].append({
            'property_id': pid,
            'reason': CHECKS['pending'].get(
                pid, 'check not built yet (see DESIGN.md section 4)')})
        continue
    entry = {
        'property_id': pid,
        'quick_cmd': f'bin/check {pid} quick',
        'thorough_cmd': f'bin/check {pid} thorough',
        'evidence_file': f'/verif/evidence/{pid}.json',
        'replay_cmd_template': f'bin/check {pid} --replay {{path}}',
        'engine': c.get('engine', 'mc'),
        'level_claimed': {
            'category': c['level'],
            'text': c['text'],
            'design_ref': c.get('design_ref', f'DESIGN.md section 4, {pid}'),
        },
        'level_note': c['note'],
        'technique': c['technique'],
    }
    manifest['checks'].append(entry)

with open(ROOT / 'MANIFEST.json', 'w') as dst:
    json.dump(manifest, dst, indent=1)
print('checks:', len(manifest['checks']), 'not_applicable:',
      len(manifest['not_applicable']))
